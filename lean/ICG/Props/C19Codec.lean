/-
  Property C19 — the entry codec, concretely.

  Props/C19.lean proves the file-level half of C19 for an ABSTRACT entry codec under the hypothesis
  `∀ e, c.decode (c.encode e) = some e`.  This file replaces that hypothesis by theorems about the concrete model of
      Output.json → json.dump(default=json_serializer) → json.load → Output.from_json / get_outputs
  in ICG.Model.Codec (JSON value trees, numpy `tolist` / `np.array`, metadata stringification):

    * `nd_float_roundtrip_general`, `nd_infer_roundtrip_general` — what `np.array(a.tolist(), …)` is for EVERY array;
      `nd_float_roundtrip`, `nd_infer_roundtrip`, `matrix_roundtrip`, `matrix_roundtrip_actions` — shape, dtype and
      every cell (NaN, ±inf included) come back when no dimension except possibly the last is zero;
      `shape_preserved_iff`, `zero_rows_shape_lost`, `zero_cols_int_dtype_lost` — and not otherwise
      (hence "a run of at least one step", "at least one row and column");
    * `metadata_roundtrip`, `stringify_idem`, `stringify_json_native`, `stringify_eq_norm` — metadata comes back
      stringified, stringification is idempotent, the identity on JSON-native values, and equal to the directly
      defined `PyVal.norm`;
    * `entry_roundtrip`, `saveLoad_fixed_point` — the whole entry;
    * `concreteCodec`, `codec_roundtrip`, `file_roundtrip_concrete`, `read_back_first_saved_concrete`,
      `file_roundtrip_loaded` … — the file-level theorems of Props/C19.lean without the codec hypothesis.

  What is still trusted is listed in the header of ICG/Model/Codec.lean ((T1)–(T5): JSON text, int → double).
-/
import ICG.Model.Store
import ICG.Props.C19
import ICG.Lemmas.CodecArr
import ICG.Lemmas.CodecMeta

namespace ICG.C19Codec
open ICG.Codec ICG.Store

variable {φ : Type} (ofInt : Int → Except CErr (FCell φ))

/-! ## arrays -/

/-- **every float64 array**: `np.array(a.tolist(), dtype=float)` has the cells of `a`, in order, and the shape of
    `a` cut after its first zero dimension -/
theorem nd_float_roundtrip_general (a : Nd φ) (hwf : a.wfB = true) (hdt : a.dtype = .f64)
    (hdim : a.shape.length ≤ maxDims) :
    ∃ t, a.tolist = .ok t ∧ t.reload = t ∧ npArrayFloat ofInt t = .ok ⟨.f64, cut a.shape, a.cells⟩ := by
  obtain ⟨dt, shape, cells⟩ := a
  simp only at hdt hdim
  subst hdt
  simp only [Nd.wfB, Bool.and_eq_true, beq_iff_eq] at hwf
  obtain ⟨t, ht, hd, hr⟩ := discover_tolist shape cells hwf.1 hdim
  refine ⟨t, ?_, hr, ?_⟩
  · simp [Nd.tolist, Nd.wfB, hwf.1, hwf.2, ht]
  · simp [npArrayFloat, hd, castTo_self ofInt .f64 cells hwf.2]

/-- **every bool / int64 / float64 array**: `np.array(a.tolist())` has the cells of `a`, the cut shape, and the
    dtype of `a` — unless `a` has no cell at all, in which case the dtype is float64 -/
theorem nd_infer_roundtrip_general (a : Nd φ) (hwf : a.wfB = true) (hdt : a.dtype ≠ .obj)
    (hdim : a.shape.length ≤ maxDims) :
    ∃ t, a.tolist = .ok t ∧ t.reload = t ∧
      npArrayInfer ofInt t = .ok ⟨if a.cells = [] then .f64 else a.dtype, cut a.shape, a.cells⟩ := by
  obtain ⟨dt, shape, cells⟩ := a
  simp only at hdt hdim
  simp only [Nd.wfB, Bool.and_eq_true, beq_iff_eq] at hwf
  obtain ⟨t, ht, hd, hr⟩ := discover_tolist shape cells hwf.1 hdim
  refine ⟨t, ?_, hr, ?_⟩
  · simp [Nd.tolist, Nd.wfB, hwf.1, hwf.2, ht]
  · by_cases hc : cells = []
    · subst hc
      simp [npArrayInfer, hd, inferDType, mapE]
    · simp [npArrayInfer, hd, inferDType_same dt hdt cells hwf.2 (Or.inl hc), castTo_self ofInt dt cells hwf.2, hc]

/-- an array whose `tolist` keeps the shape: a numpy array (cells fill the shape, have the dtype, ≤ 64 dimensions)
    with no zero dimension except possibly the last -/
structure Good (a : Nd φ) : Prop where
  wf : a.wfB = true
  dims : a.shape.length ≤ maxDims
  nozero : ∀ d ∈ a.shape.dropLast, d ≠ 0

/-- **gap array round trip** (any number of dimensions): shape, dtype float64 and every cell come back -/
theorem nd_float_roundtrip (a : Nd φ) (h : Good a) (hdt : a.dtype = .f64) :
    ∃ t, a.tolist = .ok t ∧ t.reload = t ∧ npArrayFloat ofInt t = .ok a := by
  obtain ⟨t, h1, h2, h3⟩ := nd_float_roundtrip_general ofInt a h.wf hdt h.dims
  refine ⟨t, h1, h2, ?_⟩
  rw [h3, (cut_eq_self_iff a.shape).2 h.nozero]
  obtain ⟨dt, shape, cells⟩ := a
  simp only at hdt
  subst hdt
  rfl

/-- **action array round trip** (any number of dimensions, dtype float64 — NaN padded —, int64 or bool): shape,
    dtype and every cell come back, provided the array has a cell or is float64 -/
theorem nd_infer_roundtrip (a : Nd φ) (h : Good a) (hdt : a.dtype ≠ .obj) (hne : a.cells ≠ [] ∨ a.dtype = .f64) :
    ∃ t, a.tolist = .ok t ∧ t.reload = t ∧ npArrayInfer ofInt t = .ok a := by
  obtain ⟨t, h1, h2, h3⟩ := nd_infer_roundtrip_general ofInt a h.wf hdt h.dims
  refine ⟨t, h1, h2, ?_⟩
  rw [h3, (cut_eq_self_iff a.shape).2 h.nozero]
  obtain ⟨dt, shape, cells⟩ := a
  simp only at hne ⊢
  rcases hne with hne | hne
  · simp [hne]
  · subst hne; simp

/-- the shape survives the round trip **iff** no dimension except possibly the last is zero -/
theorem shape_preserved_iff (a : Nd φ) (hwf : a.wfB = true) (hdt : a.dtype = .f64) (hdim : a.shape.length ≤ maxDims) :
    (∃ t, a.tolist = .ok t ∧ npArrayFloat ofInt t = .ok a) ↔ ∀ d ∈ a.shape.dropLast, d ≠ 0 := by
  constructor
  · rintro ⟨t, h1, h2⟩
    obtain ⟨t', h1', _, h3⟩ := nd_float_roundtrip_general ofInt a hwf hdt hdim
    rw [h1] at h1'
    cases h1'
    rw [h2] at h3
    rw [← cut_eq_self_iff]
    obtain ⟨dt, shape, cells⟩ := a
    simp only [Except.ok.injEq, Nd.mk.injEq] at h3
    exact h3.2.1.symm
  · intro h
    obtain ⟨t, h1, _, h3⟩ := nd_float_roundtrip ofInt a ⟨hwf, hdim, h⟩ hdt
    exact ⟨t, h1, h3⟩

/-- a concrete 2 × 3 gap matrix with NaN, +inf, -inf and a negative cell (finite values as `Int` tokens) -/
def exData : Nd Int :=
  ⟨.f64, [2, 3], [.float (.fin 1), .float .nan, .float (.fin (-3)), .float .pinf, .float (.fin 5), .float .ninf]⟩

/-- a NaN-padded 3-D action array as `best_states` saves it: (steps + 1, repetitions, steps) = (2, 1, 2) -/
def exActions : Nd Int :=
  ⟨.f64, [2, 1, 2], [.float .nan, .float .nan, .float (.fin 6), .float .nan]⟩

/-- int → double for `Int` tokens, exact below 2^53 (all the examples need) -/
def exOfInt (i : Int) : Except CErr (FCell Int) :=
  match roundInt i with
  | some r => .ok (.fin r)
  | none => .error .overflow

example : Good exData := ⟨by decide, by decide, by decide⟩
example : Good exActions := ⟨by decide, by decide, by decide⟩
example : exData.tolist = .ok (.arr [.arr [.float (.fin 1), .float .nan, .float (.fin (-3))],
    .arr [.float .pinf, .float (.fin 5), .float .ninf]]) := by rfl
example : ∃ t, exData.tolist = .ok t ∧ npArrayFloat exOfInt t = .ok exData := ⟨_, rfl, rfl⟩
example : ∃ t, exActions.tolist = .ok t ∧ npArrayInfer exOfInt t = .ok exActions := ⟨_, rfl, rfl⟩

/-! ### matrices -/

/-- **gap matrix round trip**: an `r × c` float64 matrix with at least one row, any cells (NaN, ±inf, any finite
    value): shape, dtype and cells come back exactly.  (`c = 0` is allowed here: `[[], []]` keeps its shape.) -/
theorem matrix_roundtrip (r c : Nat) (hr : 1 ≤ r) (cells : List (Scalar φ)) (hl : cells.length = r * c)
    (hf : cells.all (Scalar.hasType .f64) = true) :
    ∃ t, (⟨.f64, [r, c], cells⟩ : Nd φ).tolist = .ok t ∧ t.reload = t ∧
      npArrayFloat ofInt t = .ok ⟨.f64, [r, c], cells⟩ := by
  apply nd_float_roundtrip ofInt _ ⟨?_, by simp [maxDims], ?_⟩ rfl
  · simp [Nd.wfB, prod, hl, hf]
  · simp only [List.dropLast_cons_cons, List.dropLast_singleton, List.mem_singleton]
    intro d hd; omega

example : ∃ t, (⟨.f64, [2, 3], exData.cells⟩ : Nd Int).tolist = .ok t ∧ t.reload = t ∧
    npArrayFloat exOfInt t = .ok ⟨.f64, [2, 3], exData.cells⟩ :=
  matrix_roundtrip exOfInt 2 3 (by decide) _ (by decide) (by decide)

/-- **action matrix round trip**: an `r × c` matrix, `r, c ≥ 1`, of dtype float64 (ints with NaN padding, as
    `evaluate()` produces), int64 (`greedy`) or bool: shape, dtype and cells come back exactly -/
theorem matrix_roundtrip_actions (dt : DType) (hdt : dt ≠ .obj) (r c : Nat) (hr : 1 ≤ r) (hc : 1 ≤ c)
    (cells : List (Scalar φ)) (hl : cells.length = r * c) (hf : cells.all (Scalar.hasType dt) = true) :
    ∃ t, (⟨dt, [r, c], cells⟩ : Nd φ).tolist = .ok t ∧ t.reload = t ∧
      npArrayInfer ofInt t = .ok ⟨dt, [r, c], cells⟩ := by
  apply nd_infer_roundtrip ofInt _ ⟨?_, by simp [maxDims], ?_⟩ hdt
  · left
    intro h
    simp only at h
    subst h
    have : 1 ≤ r * c := Nat.mul_le_mul hr hc
    simp only [List.length_nil] at hl
    omega
  · simp [Nd.wfB, prod, hl, hf]
  · simp only [List.dropLast_cons_cons, List.dropLast_singleton, List.mem_singleton]
    intro d hd; omega

example : ∃ t, (⟨.i64, [2, 1], [.int 5, .int 9]⟩ : Nd Int).tolist = .ok t ∧ t.reload = t ∧
    npArrayInfer exOfInt t = .ok ⟨.i64, [2, 1], [.int 5, .int 9]⟩ :=
  matrix_roundtrip_actions exOfInt .i64 (by decide) 2 1 (by decide) (by decide) _ (by decide) (by decide)

/-- **zero rows: the shape is NOT preserved** — a `0 × c` matrix is written as `[]` and read back with shape `(0,)`;
    for every `c` the array read back differs from the one saved.  This is why the property speaks of a run of at
    least one step. -/
theorem zero_rows_shape_lost (c : Nat) :
    (⟨.f64, [0, c], []⟩ : Nd φ).tolist = .ok (.arr []) ∧
    npArrayFloat ofInt (.arr [] : Json φ) = .ok ⟨.f64, [0], []⟩ ∧
    npArrayInfer ofInt (.arr [] : Json φ) = .ok ⟨.f64, [0], []⟩ ∧
    (⟨.f64, [0], []⟩ : Nd φ) ≠ ⟨.f64, [0, c], []⟩ := by
  refine ⟨?_, by rfl, by rfl, by simp⟩
  simp [Nd.tolist, Nd.wfB, prod, toTree?, splitChunks, mapO]

/-- zero columns: a float64 `r × 0` matrix (`r ≥ 1`) does keep shape and dtype (instance of `matrix_roundtrip`); an
    int64 one keeps the shape but comes back as float64 -/
theorem zero_cols_int_dtype_lost (r : Nat) (hr : 1 ≤ r) :
    ∃ t, (⟨.i64, [r, 0], []⟩ : Nd φ).tolist = .ok t ∧ npArrayInfer ofInt t = .ok ⟨.f64, [r, 0], []⟩ := by
  obtain ⟨t, h1, _, h3⟩ := nd_infer_roundtrip_general ofInt (⟨.i64, [r, 0], []⟩ : Nd φ)
    (by simp [Nd.wfB, prod]) (by simp) (by simp [maxDims])
  refine ⟨t, h1, ?_⟩
  rw [h3]
  obtain ⟨r', rfl⟩ : ∃ r', r = r' + 1 := ⟨r - 1, by omega⟩
  simp [cut]

example : (⟨.f64, [0, 3], []⟩ : Nd Int).tolist = .ok (.arr []) := (zero_rows_shape_lost exOfInt 3).1
example : (⟨.f64, [2, 0, 3], []⟩ : Nd Int).tolist = .ok (.arr [.arr [], .arr []]) := by rfl
example : npArrayFloat exOfInt (.arr [.arr [], .arr []] : Json Int) = .ok ⟨.f64, [2, 0], []⟩ := by rfl
/-- 1-d and 0-d arrays round-trip (instances of `nd_float_roundtrip`) -/
example : Good (⟨.f64, [3], [.float .nan, .float (.fin 2), .float .ninf]⟩ : Nd Int) := ⟨by decide, by decide, by decide⟩
example : Good (⟨.f64, [], [.float (.fin 7)]⟩ : Nd Int) := ⟨by decide, by decide, by decide⟩
example : (⟨.f64, [], [.float (.fin 7)]⟩ : Nd Int).tolist = .ok (.float (.fin 7)) := by rfl
/-- what `np.array` does with values that `tolist` never produces: `None` under `dtype=float` is NaN, an int is
    converted, a ragged list is a ValueError, without dtype a `None` makes the array an object array -/
example : npArrayFloat exOfInt (.arr [.arr [.int 1, .null], .arr [.bool true, .float (.fin 4)]] : Json Int) =
    .ok ⟨.f64, [2, 2], [.float (.fin 1), .float .nan, .float (.fin 1), .float (.fin 4)]⟩ := by rfl
example : npArrayInfer exOfInt (.arr [.arr [.int 1, .null]] : Json Int) = .ok ⟨.obj, [1, 2], [.int 1, .null]⟩ := by rfl
example : npArrayInfer exOfInt (.arr [.arr [.int 1, .bool true], .arr [.int 3, .float (.fin 4)]] : Json Int) =
    .ok ⟨.f64, [2, 2], [.float (.fin 1), .float (.fin 1), .float (.fin 3), .float (.fin 4)]⟩ := by rfl
example : npArrayFloat exOfInt (.arr [.arr [.int 1, .int 2], .arr [.int 3]] : Json Int) = .error .value := by rfl
example : npArrayFloat exOfInt (.arr [.arr [], .arr [.arr []]] : Json Int) = .error .value := by rfl

/-! ## metadata -/

/-- **metadata comes back stringified**: after `json.dump(default=json_serializer)` + `json.load` a metadata value is
    `PyVal.norm` of itself (the directly written definition of "JSON stringification"), and the dump raises exactly
    when `norm` does -/
theorem stringify_eq_norm (v : PyVal φ) : v.stringify = v.norm := by
  rw [norm_eq]; rfl

/-- stringification is idempotent -/
theorem stringify_idem (v w : PyVal φ) (h : v.stringify = .ok w) : w.stringify = .ok w := by
  simp only [PyVal.stringify] at h
  cases hj : v.toJson with
  | error e => simp [hj] at h
  | ok j =>
    simp only [hj, Except.ok.injEq] at h
    subst h
    simp [PyVal.stringify, toJson_toPy, reload_idem]

/-- JSON-native metadata (what `json.load` can return: None, bools, ints, floats, strings, lists, dicts with distinct
    string keys) round-trips exactly -/
theorem stringify_json_native (j : Json φ) (h : j.loaded = true) : j.toPy.stringify = .ok j.toPy := by
  simp [PyVal.stringify, toJson_toPy, reload_of_loaded j h]

/-- metadata with a Path, an int key, a bool key, a tuple, a callable: `{"lr": 0.5, "dir": Path("/x/y"),
    "sizes": (1, None), "table": {1: "a", "1": "b", True: Path("p")}, "cb": <function f>}` -/
def exMeta : List (String × PyVal Int) :=
  [("lr", .float (.fin 5)), ("dir", .path "/x/y"), ("sizes", .tuple [.int 1, .none]),
   ("table", .dict [(.int 1, .str "a"), (.str "1", .str "b"), (.bool true, .path "p")]),
   ("cb", .other "<function f at 0x7f>")]

example : stringifyMeta exMeta = .ok
    [("lr", .float (.fin 5)), ("dir", .str "/x/y"), ("sizes", .list [.int 1, .none]),
     ("table", .dict [(.str "1", .str "b"), (.str "true", .str "p")]),
     ("cb", .str "<function f at 0x7f>")] := by rfl
example : (PyVal.dict [(.other, .int 1)] : PyVal Int).stringify = .error .type := by rfl
example : (PyVal.dict [(.str "1", .str "b"), (.str "true", .str "p")] : PyVal Int).stringify =
    .ok (.dict [(.str "1", .str "b"), (.str "true", .str "p")]) :=
  stringify_idem (.dict [(.int 1, .str "a"), (.str "1", .str "b"), (.bool true, .path "p")]) _ (by rfl)

/-! ## the whole entry -/

/-- the Outputs the property quantifies over: a float64 gap array and a bool / int64 / float64 action array that
    are numpy arrays (cells fill the shape) with no zero dimension before the last, the action array non-empty
    unless float64; `vars(parsed_args)` is a dict (no attribute twice) -/
structure WellShaped (o : Output φ) : Prop where
  data : Good o.data
  dataF : o.data.dtype = .f64
  actions : Good o.actions
  actT : o.actions.dtype ≠ .obj
  actNE : o.actions.cells ≠ [] ∨ o.actions.dtype = .f64
  argsNodup : (keys o.args).Nodup

/-- **entry round trip**: for a well-shaped Output whose parsed arguments hold `func` and whose metadata json can
    write (`stringifyMeta … = .ok sm`), `from_json(json.loads(json.dumps(output.json, default=json_serializer)))`
    SUCCEEDS and returns the gap array and the action array exactly (shape, dtype, every cell) and, as parsed
    arguments, the stringified metadata (`func` removed, `run_type` set) followed by `func := run_type` -/
theorem entry_roundtrip (o : Output φ) (hw : WellShaped o) (f : PyVal φ) (hf : lookupKey o.args "func" = some f)
    (sm : List (String × PyVal φ))
    (hs : stringifyMeta (setKey (eraseKey o.args "func") "run_type" (.str (runTypeOf f))) = .ok sm) :
    saveLoad ofInt o = .ok ⟨o.data, o.actions, sm ++ [("func", .str (runTypeOf f))]⟩ := by
  obtain ⟨d, hd1, hd2, hd3⟩ := nd_float_roundtrip ofInt o.data hw.data hw.dataF
  obtain ⟨a, ha1, ha2, ha3⟩ := nd_infer_roundtrip ofInt o.actions hw.actions hw.actT hw.actNE
  generalize hmd : setKey (eraseKey o.args "func") "run_type" (PyVal.str (runTypeOf f)) = md at hs
  rw [stringifyMeta_eq] at hs
  cases hm : toJsonMeta md with
  | error e => simp [hm] at hs
  | ok m =>
    simp only [hm, Except.ok.injEq] at hs
    have hkeys : keys (reloadItems m) = keys md := by rw [keys_reloadItems, keys_toJsonMeta md m hm]
    have hnd : (keys md).Nodup := by
      rw [← hmd]; exact keys_setKey_nodup _ _ _ (keys_eraseKey_nodup _ _ hw.argsNodup)
    have hfunc : "func" ∉ keys md := by
      rw [← hmd]
      intro h
      rcases mem_keys_setKey _ _ _ _ h with h | h
      · exact keys_eraseKey_not_mem _ _ h
      · exact absurd h (by decide)
    have hrt : lookupKey (reloadItems m) "run_type" = some (.str (runTypeOf f)) := by
      have h1 : lookupKey md "run_type" = some (.str (runTypeOf f)) := by
        rw [← hmd]; exact lookupKey_setKey_same _ _ _
      obtain ⟨j, hj1, hj2⟩ := lookupKey_toJsonMeta md m hm _ _ h1
      simp only [PyVal.toJson, Except.ok.injEq] at hj1
      subst hj1
      simp [lookupKey_reloadItems, hj2, Json.reload]
    have htree : entryTree o = .ok (.obj [("data", d), ("actions", a), ("metadata", .obj m)]) := by
      simp [entryTree, hd1, ha1, Output.metadata, hf, hmd, hm]
    have hdd : dedup (reloadItems m) = reloadItems m := dedup_of_nodup _ (by rw [hkeys]; exact hnd)
    have hreload : (Json.obj [("data", d), ("actions", a), ("metadata", .obj m)]).reload =
        .obj [("data", d), ("actions", a), ("metadata", .obj (reloadItems m))] := by
      simp only [Json.reload, reloadItems, hd2, ha2, hdd]
      rw [dedup_of_nodup _ (by simp [keys])]
    have hset : setKey (reloadItems m) "func" (Json.str (runTypeOf f)) =
        reloadItems m ++ [("func", .str (runTypeOf f))] :=
      setKey_of_not_mem _ _ _ (by rw [hkeys]; exact hfunc)
    simp only [saveLoad, htree, hreload]
    simp [fromJson, lookupKey, hrt, hd3, ha3, entryKeys, hset, toPyMeta_eq_map, ← hs, Json.toPy]

/-- the arguments of `entry_roundtrip`, bundled: the Output is saveable -/
def Saveable (o : Output φ) : Prop :=
  WellShaped o ∧ ∃ f sm, lookupKey o.args "func" = some f ∧
    stringifyMeta (setKey (eraseKey o.args "func") "run_type" (.str (runTypeOf f))) = .ok sm

/-- **metadata round trip**: the parsed arguments read back are the stringified metadata with `func := run_type` -/
theorem metadata_roundtrip (o o' : Output φ) (hw : WellShaped o) (h : saveLoad ofInt o = .ok o')
    (f : PyVal φ) (hf : lookupKey o.args "func" = some f) :
    ∃ sm, stringifyMeta (setKey (eraseKey o.args "func") "run_type" (.str (runTypeOf f))) = .ok sm ∧
      o'.args = sm ++ [("func", .str (runTypeOf f))] ∧
      lookupKey o'.args "run_type" = some (.str (runTypeOf f)) ∧
      lookupKey o'.args "func" = some (.str (runTypeOf f)) := by
  generalize hmd : setKey (eraseKey o.args "func") "run_type" (PyVal.str (runTypeOf f)) = md
  cases hs : stringifyMeta md with
  | error e =>
    -- the dump raised: `saveLoad` cannot have succeeded
    exfalso
    rw [stringifyMeta_eq] at hs
    cases hm : toJsonMeta md with
    | ok m => simp [hm] at hs
    | error e' =>
      obtain ⟨d, hd1, _, _⟩ := nd_float_roundtrip ofInt o.data hw.data hw.dataF
      obtain ⟨a, ha1, _, _⟩ := nd_infer_roundtrip ofInt o.actions hw.actions hw.actT hw.actNE
      simp [saveLoad, entryTree, hd1, ha1, Output.metadata, hf, hmd, hm] at h
  | ok sm =>
    have := entry_roundtrip ofInt o hw f hf sm (by rw [hmd]; exact hs)
    rw [h] at this
    simp only [Except.ok.injEq] at this
    subst this
    have hfunc : "func" ∉ keys sm := by
      rw [stringifyMeta_eq] at hs
      cases hm : toJsonMeta md with
      | error e => simp [hm] at hs
      | ok m =>
        simp only [hm, Except.ok.injEq] at hs
        rw [← hs, keys_toPyMeta, keys_reloadItems, keys_toJsonMeta md m hm, ← hmd]
        intro h
        rcases mem_keys_setKey _ _ _ _ h with h | h
        · exact keys_eraseKey_not_mem _ _ h
        · exact absurd h (by decide)
    have hrt : lookupKey sm "run_type" = some (.str (runTypeOf f)) := by
      rw [stringifyMeta_eq] at hs
      cases hm : toJsonMeta md with
      | error e => simp [hm] at hs
      | ok m =>
        simp only [hm, Except.ok.injEq] at hs
        have h1 : lookupKey md "run_type" = some (.str (runTypeOf f)) := by
          rw [← hmd]; exact lookupKey_setKey_same _ _ _
        obtain ⟨j, hj1, hj2⟩ := lookupKey_toJsonMeta md m hm _ _ h1
        simp only [PyVal.toJson, Except.ok.injEq] at hj1
        subst hj1
        simp [← hs, lookupKey_toPyMeta, lookupKey_reloadItems, hj2, Json.reload, Json.toPy]
    exact ⟨sm, rfl, rfl, lookupKey_append_of_some _ _ _ _ hrt, lookupKey_append_singleton _ _ _ hfunc⟩

/-- what the stringified metadata looks like: attribute names kept (no `func`), `run_type` set -/
theorem meta_facts (args : List (String × PyVal φ)) (f : PyVal φ) (sm : List (String × PyVal φ))
    (hnd : (keys args).Nodup)
    (hs : stringifyMeta (setKey (eraseKey args "func") "run_type" (.str (runTypeOf f))) = .ok sm) :
    (keys sm).Nodup ∧ "func" ∉ keys sm ∧ lookupKey sm "run_type" = some (.str (runTypeOf f)) := by
  have hk := keys_stringifyMeta _ _ hs
  refine ⟨?_, ?_, ?_⟩
  · rw [hk]; exact keys_setKey_nodup _ _ _ (keys_eraseKey_nodup _ _ hnd)
  · rw [hk]
    intro h
    rcases mem_keys_setKey _ _ _ _ h with h | h
    · exact keys_eraseKey_not_mem _ _ h
    · exact absurd h (by decide)
  · obtain ⟨w, hw1, hw2⟩ := lookupKey_stringifyMeta _ _ hs "run_type" _ (lookupKey_setKey_same _ _ _)
    simp only [PyVal.stringify, PyVal.toJson, Json.reload, Json.toPy, Except.ok.injEq] at hw1
    rw [hw2, ← hw1]

/-- **what was read back is a fixed point**: saving the Output that was read back and reading it again returns it
    unchanged (so the second and every later generation of a results file is exact, metadata included) -/
theorem saveLoad_fixed_point (o o' : Output φ) (hs : Saveable o) (h : saveLoad ofInt o = .ok o') :
    Saveable o' ∧ saveLoad ofInt o' = .ok o' ∧ o'.data = o.data ∧ o'.actions = o.actions := by
  obtain ⟨hw, f, sm, hf, hsm⟩ := hs
  have h1 := entry_roundtrip ofInt o hw f hf sm hsm
  rw [h] at h1
  simp only [Except.ok.injEq] at h1
  subst h1
  obtain ⟨hnd, hfunc, hrt⟩ := meta_facts o.args f sm hw.argsNodup hsm
  have hw' : WellShaped (⟨o.data, o.actions, sm ++ [("func", .str (runTypeOf f))]⟩ : Output φ) := by
    refine ⟨hw.data, hw.dataF, hw.actions, hw.actT, hw.actNE, ?_⟩
    simp only [keys, List.map_append, List.map_cons, List.map_nil]
    rw [List.nodup_append]
    refine ⟨hnd, by simp, ?_⟩
    intro a ha b hb
    simp only [List.mem_singleton] at hb
    subst hb
    exact fun e => hfunc (e ▸ ha)
  have hf' : lookupKey (sm ++ [("func", PyVal.str (runTypeOf f))]) "func" = some (.str (runTypeOf f)) :=
    lookupKey_append_singleton _ _ _ hfunc
  have hmd' : setKey (eraseKey (sm ++ [("func", PyVal.str (runTypeOf f))]) "func") "run_type"
      (PyVal.str (runTypeOf (PyVal.str (runTypeOf f) : PyVal φ))) = sm := by
    rw [eraseKey_append_singleton _ _ _ hfunc, runTypeOf_str_runTypeOf, setKey_of_lookupKey _ _ _ hrt]
  have hsm' := stringifyMeta_idem _ _ hsm
  have h2 := entry_roundtrip ofInt _ hw' (.str (runTypeOf f)) hf' sm (by rw [hmd']; exact hsm')
  refine ⟨⟨hw', .str (runTypeOf f), sm, hf', by rw [hmd']; exact hsm'⟩, ?_, rfl, rfl⟩
  rw [h2, runTypeOf_str_runTypeOf]

/-- a saveable Output is saved and read back successfully -/
theorem saveLoad_ok (o : Output φ) (hs : Saveable o) :
    ∃ o', saveLoad ofInt o = .ok o' ∧ o'.data = o.data ∧ o'.actions = o.actions := by
  obtain ⟨hw, f, sm, hf, hsm⟩ := hs
  exact ⟨_, entry_roundtrip ofInt o hw f hf sm hsm, rfl, rfl⟩

theorem entryTree_ok (o : Output φ) (hs : Saveable o) : ∃ t, entryTree o = .ok t := by
  obtain ⟨o', h, _⟩ := saveLoad_ok (fun _ => .error .overflow) o hs
  simp only [saveLoad] at h
  cases ht : entryTree o with
  | ok t => exact ⟨t, rfl⟩
  | error e => simp [ht] at h

/-- a complete concrete entry: 2 × 3 gap matrix with NaN and ±inf, NaN-padded 3-D actions, parsed arguments with an
    evaluation function, a Path, a tuple, an int-keyed and bool-keyed dict -/
def exOutput : Output Int :=
  ⟨exData, exActions, ("func", .other "<function eval_func at 0x7f>") :: ("seed", .int 7) :: exMeta⟩

def exLoaded : Output Int :=
  ⟨exData, exActions,
   [("seed", .int 7), ("lr", .float (.fin 5)), ("dir", .str "/x/y"), ("sizes", .list [.int 1, .none]),
    ("table", .dict [(.str "1", .str "b"), (.str "true", .str "p")]), ("cb", .str "<function f at 0x7f>"),
    ("run_type", .str "eval"), ("func", .str "eval")]⟩

example : entryTree exOutput = .ok (.obj
    [("data", .arr [.arr [.float (.fin 1), .float .nan, .float (.fin (-3))], .arr [.float .pinf, .float (.fin 5), .float .ninf]]),
     ("actions", .arr [.arr [.arr [.float .nan, .float .nan]], .arr [.arr [.float (.fin 6), .float .nan]]]),
     ("metadata", .obj [("seed", .int 7), ("lr", .float (.fin 5)), ("dir", .str "/x/y"), ("sizes", .arr [.int 1, .null]),
        ("table", .obj [("1", .str "a"), ("1", .str "b"), ("true", .str "p")]), ("cb", .str "<function f at 0x7f>"),
        ("run_type", .str "eval")])]) := by rfl
example : saveLoad exOfInt exOutput = .ok exLoaded := by rfl
example : saveLoad exOfInt exLoaded = .ok exLoaded := by rfl
example : WellShaped exOutput :=
  ⟨⟨by decide, by decide, by decide⟩, rfl, ⟨by decide, by decide, by decide⟩, by decide, Or.inl (by decide), by decide⟩
example : Saveable exOutput :=
  ⟨⟨⟨by decide, by decide, by decide⟩, rfl, ⟨by decide, by decide, by decide⟩, by decide, Or.inl (by decide), by decide⟩,
   _, _, rfl, rfl⟩
/-- the errors of the real code: no `func` → KeyError; a tuple as dict key → TypeError; an entry without metadata →
    KeyError; metadata that is not a dict → TypeError; ragged data → ValueError -/
example : saveLoad exOfInt (⟨exData, exActions, [("seed", .int 7)]⟩ : Output Int) = .error .key := by rfl
example : saveLoad exOfInt (⟨exData, exActions, [("func", .str "f"), ("w", .dict [(.other, .int 1)])]⟩ : Output Int) =
    .error .type := by rfl
example : fromJson exOfInt (.obj [("data", .arr []), ("actions", .arr [])] : Json Int) = .error .key := by rfl
example : fromJson exOfInt (.obj [("data", .arr []), ("actions", .arr []), ("metadata", .arr [])] : Json Int) =
    .error .type := by rfl
example : fromJson exOfInt (.obj [("data", .arr [.arr [.int 1], .arr []]), ("actions", .arr []),
    ("metadata", .obj [("run_type", .str "x")])] : Json Int) = .error .value := by rfl

/-! ## the results file: Props/C19.lean without the codec hypothesis -/

section store
open Classical

/-- the saveable Outputs -/
abbrev SO (φ : Type) := {o : Output φ // Saveable o}

/-- the value of a computation known to succeed -/
def okVal {ε α : Type} : (x : Except ε α) → (∃ a, x = .ok a) → α
  | .ok a, _ => a
  | .error _, h => False.elim (by obtain ⟨a, ha⟩ := h; cases ha)

theorem okVal_spec {ε α : Type} (x : Except ε α) (h : ∃ a, x = .ok a) : x = .ok (okVal x h) := by
  cases x with
  | ok a => rfl
  | error e => obtain ⟨a, ha⟩ := h; cases ha

/-- **the concrete entry codec** as an instance of the abstract `ICG.Store.Codec`: `encode` = the loaded JSON value of
    what `save_json` writes for the entry, `decode` = `Output.from_json` -/
noncomputable def concreteCodec : Codec (SO φ) (Json φ) where
  encode s := (okVal (entryTree s.1) (entryTree_ok s.1 s.2)).reload
  decode j :=
    match fromJson ofInt j with
    | .ok o => if h : Saveable o then some ⟨o, h⟩ else none
    | .error _ => none

theorem saveLoad_eq_decode (s : SO φ) :
    saveLoad ofInt s.1 = fromJson ofInt ((concreteCodec ofInt).encode s) := by
  have h := okVal_spec (entryTree s.1) (entryTree_ok s.1 s.2)
  simp only [concreteCodec]
  generalize okVal (entryTree s.1) (entryTree_ok s.1 s.2) = t at h
  simp [saveLoad, h]

/-- the Output read back for a saveable Output (again saveable) -/
noncomputable def normS (s : SO φ) : SO φ :=
  ⟨okVal (saveLoad ofInt s.1) (by obtain ⟨o', h, _⟩ := saveLoad_ok ofInt s.1 s.2; exact ⟨o', h⟩),
   (saveLoad_fixed_point ofInt s.1 _ s.2 (okVal_spec _ _)).1⟩

theorem normS_spec (s : SO φ) : saveLoad ofInt s.1 = .ok (normS ofInt s).1 := okVal_spec _ _

/-- **the codec hypothesis, proved**: decoding what was encoded succeeds and gives the Output `normS s`, which has
    the gap array and the action array of `s` exactly and the stringified metadata -/
theorem codec_roundtrip (s : SO φ) :
    (concreteCodec ofInt).decode ((concreteCodec ofInt).encode s) = some (normS ofInt s) := by
  have h := saveLoad_eq_decode ofInt s
  rw [normS_spec ofInt s] at h
  show (match fromJson ofInt ((concreteCodec ofInt).encode s) with
    | .ok o => if h : Saveable o then some ⟨o, h⟩ else none
    | .error _ => none) = some (normS ofInt s)
  rw [← h]
  simp only [(normS ofInt s).2, dif_pos]

theorem normS_data (s : SO φ) : (normS ofInt s).1.data = s.1.data :=
  (saveLoad_fixed_point ofInt s.1 _ s.2 (normS_spec ofInt s)).2.2.1

theorem normS_actions (s : SO φ) : (normS ofInt s).1.actions = s.1.actions :=
  (saveLoad_fixed_point ofInt s.1 _ s.2 (normS_spec ofInt s)).2.2.2

/-- reading back is idempotent: on Outputs that were read back from a file the codec hypothesis of Props/C19.lean
    holds literally -/
theorem normS_idem (s : SO φ) : normS ofInt (normS ofInt s) = normS ofInt s := by
  apply Subtype.ext
  have h1 := (saveLoad_fixed_point ofInt s.1 _ s.2 (normS_spec ofInt s)).2.1
  have h2 := normS_spec ofInt (normS ofInt s)
  rw [h1] at h2
  simp only [Except.ok.injEq] at h2
  exact h2.symm

/-! ### generic: a codec that decodes to a normal form -/

variable {ε β : Type}

/-- every entry replaced by what is read back for it -/
def mapStore (norm : ε → ε) (s : Store ε) : Store ε := s.map (fun p => (p.1, norm p.2))

theorem lookup_mapStore (norm : ε → ε) (s : Store ε) (m : String) :
    lookup (mapStore norm s) m = (lookup s m).map norm := by
  induction s with
  | nil => rfl
  | cons p r ih =>
    obtain ⟨k, e⟩ := p
    by_cases hk : k = m
    · simp [mapStore, lookup, hk]
    · simp only [mapStore, List.map_cons, lookup, hk, if_false]
      exact ih

theorem names_mapStore (norm : ε → ε) (s : Store ε) : names (mapStore norm s) = names s := by
  simp [mapStore, names]

theorem decode_encodeStore_norm (c : Codec ε β) (norm : ε → ε) (hc : ∀ e, c.decode (c.encode e) = some (norm e))
    (s : Store ε) : decodeStore c (encodeStore c s) = some (mapStore norm s) := by
  induction s with
  | nil => rfl
  | cons p s ih =>
    obtain ⟨k, e⟩ := p
    simp only [encodeStore, List.map_cons, mapStore] at ih ⊢
    simp [decodeStore, hc, ih]

/-- `ICG.C19.file_roundtrip` for a codec that normalises -/
theorem file_roundtrip_norm (c : Codec ε β) (norm : ε → ε) (hc : ∀ e, c.decode (c.encode e) = some (norm e))
    (s : Store ε) (l : List (String × ε)) :
    decodeStore c (l.foldl (fun f p => saveFile c f p.1 p.2) (encodeStore c s)) = some (mapStore norm (saveAll s l)) := by
  induction l generalizing s with
  | nil => exact decode_encodeStore_norm c norm hc s
  | cons p l ih =>
    simp only [List.foldl_cons, ICG.C19.encodeStore_save]
    exact ih (save s p.1 p.2)

/-! ### the concrete statements -/

/-- **file round trip, concretely** (no hypothesis on the codec): after ANY sequence of `save_json` calls with saveable
    Outputs, starting from the file of any store, `get_outputs_from_file` decodes every entry, and the store read is
    the store of `ICG.C19` (first save under a name wins, insertion order) with every entry replaced by its read-back
    form (`normS`: arrays exact, metadata stringified) -/
theorem file_roundtrip_concrete (s : Store (SO φ)) (l : List (String × SO φ)) :
    decodeStore (concreteCodec ofInt)
      (l.foldl (fun f p => saveFile (concreteCodec ofInt) f p.1 p.2) (encodeStore (concreteCodec ofInt) s)) =
    some (mapStore (normS ofInt) (saveAll s l)) :=
  file_roundtrip_norm _ _ (codec_roundtrip ofInt) s l

/-- **every run saved into a fresh file is read back as the first entry saved under its name**: its gap array and
    action array exactly (shape, dtype, NaN positions, every cell), its metadata stringified; a name never saved is
    not in the file -/
theorem read_back_first_saved_concrete (l : List (String × SO φ)) (m : String) :
    ∃ t, decodeStore (concreteCodec ofInt) (l.foldl (fun f p => saveFile (concreteCodec ofInt) f p.1 p.2) []) = some t ∧
      lookup t m = (firstSaved l m).map (normS ofInt) ∧
      (∀ e, firstSaved l m = some e → ∃ e', lookup t m = some e' ∧ saveLoad ofInt e.1 = .ok e'.1 ∧
        e'.1.data = e.1.data ∧ e'.1.actions = e.1.actions) := by
  refine ⟨mapStore (normS ofInt) (saveAll [] l), ?_, ?_, ?_⟩
  · simpa [encodeStore] using file_roundtrip_concrete ofInt [] l
  · rw [lookup_mapStore, ICG.C19.lookup_saveAll_empty]
  · intro e he
    refine ⟨normS ofInt e, ?_, normS_spec ofInt e, normS_data ofInt e, normS_actions ofInt e⟩
    rw [lookup_mapStore, ICG.C19.lookup_saveAll_empty, he]; rfl

/-- **earlier entries unchanged, on the file**: an entry readable after some saves reads back identically after any
    further saves (new names or existing names) -/
theorem earlier_entries_unchanged_concrete (l₁ l₂ : List (String × SO φ)) (m : String) (x : SO φ) :
    ∀ t₁, decodeStore (concreteCodec ofInt) (l₁.foldl (fun f p => saveFile (concreteCodec ofInt) f p.1 p.2) []) = some t₁ →
      lookup t₁ m = some x →
      ∃ t₂, decodeStore (concreteCodec ofInt)
          ((l₁ ++ l₂).foldl (fun f p => saveFile (concreteCodec ofInt) f p.1 p.2) []) = some t₂ ∧
        lookup t₂ m = some x := by
  intro t₁ h1 hx
  have e1 : decodeStore (concreteCodec ofInt) (l₁.foldl (fun f p => saveFile (concreteCodec ofInt) f p.1 p.2) []) =
      some (mapStore (normS ofInt) (saveAll [] l₁)) := by
    simpa [encodeStore] using file_roundtrip_concrete ofInt [] l₁
  rw [e1] at h1
  simp only [Option.some.injEq] at h1
  subst h1
  refine ⟨mapStore (normS ofInt) (saveAll [] (l₁ ++ l₂)), ?_, ?_⟩
  · simpa [encodeStore] using file_roundtrip_concrete ofInt [] (l₁ ++ l₂)
  · rw [lookup_mapStore] at hx ⊢
    cases h : lookup (saveAll [] l₁) m with
    | none => simp [h] at hx
    | some y =>
      rw [ICG.C19.earlier_entries_unchanged [] l₁ l₂ m y h]
      simpa [h] using hx

/-- saving under an existing name leaves the FILE CONTENT (the JSON value of every entry) exactly as it was -/
theorem save_existing_concrete (f : Store (Json φ)) (n : String) (e : SO φ) (h : n ∈ names f) :
    saveFile (concreteCodec ofInt) f n e = f :=
  ICG.C19.save_existing_of_mem f n _ h

/-- saving under a new name appends one entry to the file content and changes no earlier one -/
theorem save_new_concrete (f : Store (Json φ)) (n : String) (e : SO φ) (h : lookup f n = none) :
    saveFile (concreteCodec ofInt) f n e = f ++ [(n, (concreteCodec ofInt).encode e)] := by
  simp [saveFile, save, has, h]

/-- on Outputs that were themselves read back from a file (`normS s = s`) the abstract hypothesis of Props/C19.lean
    holds as stated, so `ICG.C19.file_roundtrip` gives the store back on the nose -/
theorem file_roundtrip_loaded (s : Store (SO φ)) (l : List (String × SO φ))
    (hs : ∀ p ∈ s, normS ofInt p.2 = p.2) (hl : ∀ p ∈ l, normS ofInt p.2 = p.2) :
    decodeStore (concreteCodec ofInt)
      (l.foldl (fun f p => saveFile (concreteCodec ofInt) f p.1 p.2) (encodeStore (concreteCodec ofInt) s)) =
    some (saveAll s l) := by
  rw [file_roundtrip_concrete]
  congr 1
  have hall : ∀ (s : Store (SO φ)), (∀ p ∈ s, normS ofInt p.2 = p.2) →
      ∀ p ∈ saveAll s l, normS ofInt p.2 = p.2 := by
    induction l with
    | nil => intro s hs; exact hs
    | cons q l ih =>
      intro s hs
      rw [ICG.C19.saveAll_cons]
      apply ih (fun p hp => hl p (by simp [hp])) (save s q.1 q.2)
      intro p hp
      unfold save at hp
      split at hp
      · exact hs p hp
      · rcases List.mem_append.1 hp with hp | hp
        · exact hs p hp
        · simp only [List.mem_singleton] at hp
          subst hp
          exact hl q (by simp)
  unfold mapStore
  conv => rhs; rw [← List.map_id (saveAll s l)]
  apply List.map_congr_left
  intro p hp
  obtain ⟨k, e⟩ := p
  simp [hall s hs (k, e) hp]

/-- the hypotheses are satisfiable: `exOutput` is a saveable Output, so is what is read back for it -/
theorem exSaveable : Saveable exOutput :=
  ⟨⟨⟨by decide, by decide, by decide⟩, rfl, ⟨by decide, by decide, by decide⟩, by decide, Or.inl (by decide), by decide⟩,
   _, _, rfl, rfl⟩

theorem exLoadedSaveable : Saveable exLoaded :=
  (saveLoad_fixed_point exOfInt exOutput exLoaded exSaveable (by rfl)).1

/-- two saves under the same name into a fresh file: what is read back under that name is the FIRST Output, with its
    2 × 3 gap matrix (NaN, ±inf) and NaN-padded actions exactly and its metadata stringified (`exLoaded`) -/
example : ∃ t, decodeStore (concreteCodec exOfInt)
      ([("run", (⟨exOutput, exSaveable⟩ : SO Int)), ("other", ⟨exLoaded, exLoadedSaveable⟩),
        ("run", ⟨exLoaded, exLoadedSaveable⟩)].foldl (fun f p => saveFile (concreteCodec exOfInt) f p.1 p.2) []) = some t ∧
    ∃ e', lookup t "run" = some e' ∧ e'.1 = exLoaded := by
  obtain ⟨t, h1, _, h3⟩ := read_back_first_saved_concrete exOfInt
    [("run", (⟨exOutput, exSaveable⟩ : SO Int)), ("other", ⟨exLoaded, exLoadedSaveable⟩),
     ("run", ⟨exLoaded, exLoadedSaveable⟩)] "run"
  obtain ⟨e', h4, h5, _⟩ := h3 ⟨exOutput, exSaveable⟩ (by simp [firstSaved, lookup])
  refine ⟨t, h1, e', h4, ?_⟩
  have : saveLoad exOfInt exOutput = .ok exLoaded := by rfl
  rw [this] at h5
  simp only [Except.ok.injEq] at h5
  exact h5.symm

/-- `exLoaded` is its own read-back form: the literal codec hypothesis of Props/C19.lean holds for it -/
example : normS exOfInt ⟨exLoaded, exLoadedSaveable⟩ = ⟨exLoaded, exLoadedSaveable⟩ := by
  apply Subtype.ext
  have h := normS_spec exOfInt ⟨exLoaded, exLoadedSaveable⟩
  have : saveLoad exOfInt exLoaded = .ok exLoaded := by rfl
  rw [this] at h
  simp only [Except.ok.injEq] at h
  exact h.symm

/-- what `decodeStore` of the abstract model decodes is what the model of `get_outputs` returns -/
theorem getOutputs_of_decodeStore (f : Store (Json φ)) (t : Store (SO φ))
    (h : decodeStore (concreteCodec ofInt) f = some t) :
    getOutputs ofInt f = .ok (t.map (fun p => (p.1, p.2.1))) := by
  induction f generalizing t with
  | nil => simp only [decodeStore, Option.some.injEq] at h; subst h; rfl
  | cons p r ih =>
    obtain ⟨n, j⟩ := p
    simp only [decodeStore] at h
    cases hd : (concreteCodec ofInt).decode j with
    | none => simp [hd] at h
    | some e =>
      cases hr : decodeStore (concreteCodec ofInt) r with
      | none => simp [hd, hr] at h
      | some t' =>
        simp only [hd, hr, Option.some.injEq] at h
        subst h
        have hj : fromJson ofInt j = .ok e.1 := by
          simp only [concreteCodec] at hd
          cases hf : fromJson ofInt j with
          | error err => simp [hf] at hd
          | ok o =>
            simp only [hf] at hd
            by_cases hs : Saveable o
            · simp only [hs, dif_pos, Option.some.injEq] at hd
              rw [← hd]
            · simp [hs] at hd
        simp [getOutputs, hj, ih t' hr]

end store

end ICG.C19Codec
