/-
  Property C14 — the regret minimiser (ICG.Model.Regret, the model of incomplete_cooperative/regret.py).

  "A regret minimiser can be constructed for every player count it can represent and every reveal limit
   ≥ 1, and its ranking of coalition sets is a bijection ordered by set size.  After any number of
   iterations with non-negative terminal values, every current and every average strategy is a probability
   distribution supported only on viable coalitions not yet revealed at that node, the regret added at a
   node is orthogonal to the strategy played there, the 'plus' variant keeps cumulative regret
   non-negative, and a saved-then-loaded minimiser continues identically."

  The model has an allocation `Policy` (length of the id → rank table, stored limit).  `Policy.current` is
  the tree as it is: `current_index_error` and `current_nan` are the two ways it FAILS the property;
  `constructible` / `constructible_repaired` and the invariants are for policies whose table covers every
  id and whose stored limit is at most the number of viable coalitions.
-/
import ICG.Model.Regret
import ICG.Lemmas.Regret
import ICG.Lemmas.RegretNode
import ICG.Lemmas.RegretIter
import ICG.Lemmas.RegretAvg
import ICG.Lemmas.RegretPass
import ICG.Lemmas.RegretTree
import ICG.Lemmas.RegretPid
import Mathlib.Algebra.Order.Field.Basic
import Mathlib.Algebra.Order.Field.Rat

set_option linter.unusedSectionVars false

namespace ICG.C14
open ICG ICG.Regret

/-! ## 1. ranking -/

/-- **ranking**: for every `m` and `limit` the rank → id list is duplicate-free, sorted by set size
    (popcount), and consists exactly of the masks over `m` bits with at most `min limit m` bits;
    `np.fromiter(.., count=coalitions_up_to(..))` receives exactly that list, whose length is
    `Σ_{k ≤ min m limit} C(m, k)`. -/
theorem ranking (m limit : Nat) :
    (metaIds m limit).Nodup ∧
    (metaIds m limit).Pairwise (fun a b => size a ≤ size b) ∧
    (∀ x, x ∈ metaIds m limit ↔ x < 2 ^ m ∧ size x ≤ min limit m) ∧
    metaIdsArr m limit = .ok (metaIds m limit) ∧
    (metaIds m limit).length = ((List.range (min m limit + 1)).map (Nat.choose m)).sum :=
  ⟨metaIds_nodup m limit, metaIds_sorted m limit, fun _ => mem_metaIds, metaIdsArr_eq m limit,
   by rw [length_metaIds, coalitionsUpTo_eq]⟩

example : metaIds 3 2 = [0, 1, 2, 4, 3, 5, 6] := by decide +kernel
example : metaIds 3 60 = [0, 1, 2, 4, 3, 5, 6, 7] := by decide +kernel
example : (metaIds 10 5).length = 638 := by decide +kernel

/-! ## 2. construction -/

section ctor
variable {α : Type} [Zero α]

/-- **construction fails iff some id does not fit the table** (`n ≥ 2`; for `n < 2` numpy rejects the
    negative array shape), and then with an IndexError. -/
theorem construction_ok_iff (p : Policy) {n : Nat} (hn : 2 ≤ n) (limit : Nat) (plus : Bool) :
    (∃ rm, RM.new (α := α) p n limit plus = .ok rm) ↔
      ∀ id ∈ metaIds (numCoalitions n) limit, id < p.tableLen (metaIds (numCoalitions n) limit) :=
  new_ok_iff p hn limit plus

theorem construction_fails_iff (p : Policy) {n : Nat} (hn : 2 ≤ n) (limit : Nat) (plus : Bool) :
    RM.new (α := α) p n limit plus = .error .index ↔
      ∃ id ∈ metaIds (numCoalitions n) limit, p.tableLen (metaIds (numCoalitions n) limit) ≤ id :=
  new_error_iff p hn limit plus

/-- the current code: fails iff some id ≥ the number of ids -/
theorem current_fails_iff {n : Nat} (hn : 2 ≤ n) (limit : Nat) (plus : Bool) :
    RM.new (α := α) Policy.current n limit plus = .error .index ↔
      ∃ id ∈ metaIds (numCoalitions n) limit, (metaIds (numCoalitions n) limit).length ≤ id :=
  new_error_iff Policy.current hn limit plus

/-- **constructible**: with a table longer than every id (e.g. `2^m`, or largest id + 1) the constructor
    succeeds for every `n ≥ 2`, every limit, and `rank ∘ id` is the identity on ranks. -/
theorem constructible (p : Policy) {n : Nat} (hn : 2 ≤ n) (limit : Nat) (plus : Bool)
    (hp : ∀ id ∈ metaIds (numCoalitions n) limit, id < p.tableLen (metaIds (numCoalitions n) limit)) :
    ∃ rm, RM.new (α := α) p n limit plus = .ok rm ∧
      rm.n = n ∧ rm.m = numCoalitions n ∧ rm.plus = plus ∧ rm.limit = p.storedLimit (numCoalitions n) limit ∧
      rm.rankToId = metaIds (numCoalitions n) limit ∧
      (∀ r (hr : r < rm.rankToId.length), rm.rankOf rm.rankToId[r] = .ok r) ∧
      rm.R = coalitionsBelow rm.m rm.limit ∧
      rm.regret = zeros2 rm.R rm.m ∧ rm.strategy = zeros2 rm.R rm.m ∧ rm.iteration = 0 := by
  obtain ⟨rm, h⟩ := (new_ok_iff (α := α) p hn limit plus).mpr hp
  obtain ⟨h1, h2, h3, h4, h5, _, h7, h8, _, h10, h11, h12⟩ := new_spec hn h
  exact ⟨rm, h, h1, h2, h4, h3, h5, h7, h8, h10, h11, h12⟩

theorem repaired_covers (ids : List Nat) : ∀ id ∈ ids, id < Policy.repaired.tableLen ids := by
  intro id hid
  have := (le_foldl_max ids 0).2 id hid
  show id < ids.foldl max 0 + 1
  omega

/-- the candidate repair (largest id + 1 slots) is constructible for every `n ≥ 2` and every limit -/
theorem constructible_repaired {n : Nat} (hn : 2 ≤ n) (limit : Nat) (plus : Bool) :
    ∃ rm, RM.new (α := α) Policy.repaired n limit plus = .ok rm ∧
      rm.rankToId = metaIds (numCoalitions n) limit ∧
      (∀ r (hr : r < rm.rankToId.length), rm.rankOf rm.rankToId[r] = .ok r) ∧
      rm.limit = min (numCoalitions n) limit := by
  obtain ⟨rm, h, _, _, _, h4, h5, h6, _⟩ :=
    constructible (α := α) Policy.repaired hn limit plus (repaired_covers _)
  exact ⟨rm, h, h5, h6, h4⟩

/-- so is a table of `2^m` slots -/
theorem constructible_pow {n : Nat} (hn : 2 ≤ n) (limit stored : Nat) (plus : Bool) :
    ∃ rm, RM.new (α := α) (Policy.explicit (2 ^ numCoalitions n) stored) n limit plus = .ok rm :=
  (new_ok_iff _ hn limit plus).mpr (fun _ hid => (mem_metaIds.mp hid).1)

end ctor

/-- the error of a result, if any (lets `decide` talk about outcomes of a type without `DecidableEq`) -/
def errOf {β} : Except Err β → Option Err
  | .ok _ => none
  | .error e => some e

/-- the Boolean a computation returns (`false` when it raised) -/
def holds : Except Err Bool → Bool
  | .ok b => b
  | .error _ => false

/-- **C14 fails on the current tree (a)**: `GameRegretMinimizer(3, 1)` raises IndexError. -/
theorem current_index_error :
    RM.new (α := Rat) Policy.current 3 1 false = .error .index := by
  rw [current_fails_iff (by decide)]
  exact ⟨4, by decide +kernel, by decide +kernel⟩

/-- … and so do n = 4, limits 1 … 8 (the largest id 2^10 − 2^(10−limit) is ≥ the number of ids) -/
theorem current_index_error_n4 : ∀ limit ∈ [1, 2, 3, 4, 5, 6, 7, 8], ∀ plus,
    RM.new (α := Rat) Policy.current 4 limit plus = .error .index := by
  intro limit hl plus
  rw [current_fails_iff (by decide)]
  simp only [List.mem_cons, List.not_mem_nil, or_false] at hl
  rcases hl with rfl | rfl | rfl | rfl | rfl | rfl | rfl | rfl
  · exact ⟨512, by decide +kernel, by decide +kernel⟩
  · exact ⟨768, by decide +kernel, by decide +kernel⟩
  · exact ⟨896, by decide +kernel, by decide +kernel⟩
  · exact ⟨960, by decide +kernel, by decide +kernel⟩
  · exact ⟨992, by decide +kernel, by decide +kernel⟩
  · exact ⟨1008, by decide +kernel, by decide +kernel⟩
  · exact ⟨1016, by decide +kernel, by decide +kernel⟩
  · exact ⟨1020, by decide +kernel, by decide +kernel⟩

/-- the same inputs are fine under the repaired allocation -/
example : errOf (RM.new (α := Rat) Policy.repaired 3 1 false) = none := by decide +kernel

/-- **C14 fails on the current tree (b)**: n = 3, limit = 4 (> 3 viable coalitions) constructs, but the
    all-revealed node 7 has a regret minimiser whose strategy is 0/0, and one iteration with the
    non-negative terminal value 1 ends in NaN. -/
theorem current_nan :
    errOf (RM.new (α := Rat) Policy.current 3 4 false) = none ∧
    errOf (do let rm ← RM.new (α := Rat) Policy.current 3 4 false; rm.regretMatching 7) = some .nan ∧
    errOf (do let rm ← RM.new (α := Rat) Policy.current 3 4 false; rm.iterate [1] [[3, 5, 6]]) = some .nan := by
  decide +kernel

/-- with the stored limit clipped the same call is fine -/
example : errOf (do let rm ← RM.new (α := Rat) Policy.repaired 3 4 false; rm.iterate [1] [[3, 5, 6]]) = none := by
  decide +kernel

/-! ## 3. one node -/

section node
variable {α : Type} [Field α] [LinearOrder α] [IsStrictOrderedRing α]

/-- **current strategy at a node**: if the cumulative regret of every already revealed coalition is ≤ 0
    (kept by `used_regret_stays_nonpos`) and some viable coalition is not yet revealed, regret matching
    succeeds (no 0/0) and returns a probability distribution that is 0 on the revealed coalitions. -/
theorem strategy_distribution {m : Nat} {row : List α} {used : List Nat}
    (hlen : row.length = m) (hused : ∀ i ∈ used, i < m)
    (hneg : ∀ i ∈ used, ∀ h : i < row.length, row[i] ≤ 0)
    (hfree : ∃ j, j < m ∧ j ∉ used) :
    ∃ σ, regretMatchingRow m row used = .ok σ ∧ σ.length = m ∧ (∀ x ∈ σ, 0 ≤ x) ∧ σ.sum = 1 ∧
      ∀ i ∈ used, σ[i]? = some 0 :=
  regretMatchingRow_distribution hlen hused hneg hfree

/-- **orthogonality**: the regret added at a node, `q_a − Σ_b q_b σ_b`, is orthogonal to the strategy
    `σ` played there (any `q`, any `σ` summing to 1). -/
theorem added_regret_orthogonal {σ q : List α} (hlen : σ.length = q.length) (hs : σ.sum = 1) :
    (List.zipWith (· * ·) σ (q.map (· - listSum (List.zipWith (· * ·) q σ)))).sum = 0 :=
  update_orthogonal hlen hs

/-- … and `new row − old row` of the code's update `r += q − e` is that added regret -/
theorem added_regret_eq (r q : List α) (e : α) (h : r.length = q.length) :
    List.zipWith (fun r' r => r' - r) (List.zipWith (fun r q => r + (q - e)) r q) r = q.map (· - e) :=
  regret_update_sub r q e h

/-- the regret of a revealed coalition (q-value 0) stays ≤ 0 when the experienced loss is ≥ 0 … -/
theorem used_regret_stays_nonpos {r e : α} (hr : r ≤ 0) (he : 0 ≤ e) : r + (0 - e) ≤ 0 :=
  used_regret_nonpos hr he

/-- … which it is for non-negative q-values and a non-negative strategy -/
theorem experienced_nonneg (q σ : List α) (hq : ∀ x ∈ q, 0 ≤ x) (hσ : ∀ x ∈ σ, 0 ≤ x) :
    0 ≤ listSum (List.zipWith (· * ·) q σ) := by
  rw [listSum_eq_sum]; exact dot_nonneg q σ hq hσ


/-- the same at a node of the object: `regret_matching_strategy(mc)` for the node ranked `i` -/
theorem node_strategy_distribution {rm : RM α} {mc i : Nat} {row : List α}
    (hrank : rm.rankOf mc = .ok i) (hrow : getIdx rm.regret i = .ok row) (hlen : row.length = rm.m)
    (hused : ∀ a ∈ players mc, a < rm.m) (hneg : ∀ a ∈ players mc, ∀ h : a < row.length, row[a] ≤ 0)
    (hfree : ∃ j, j < rm.m ∧ j ∉ players mc) :
    ∃ σ, rm.regretMatching mc = .ok σ ∧ σ.length = rm.m ∧ (∀ x ∈ σ, 0 ≤ x) ∧ σ.sum = 1 ∧
      ∀ a ∈ players mc, σ[a]? = some 0 :=
  node_strategy hrank hrow hlen hused hneg hfree

/-- **one node, one iteration** (the induction step of the tree invariant, at one node): with `σ` the
    distribution played, `q ≥ 0` the q-values (0 on the revealed coalitions, which are never assigned) and
    `e = Σ q σ`, the updated row `row + (q − e)` is still ≤ 0 on the revealed coalitions, the difference to
    the old row is orthogonal to `σ`, and the plus-clipped row is ≥ 0 and still ≤ 0 on the revealed ones. -/
theorem node_update_invariants {m : Nat} {row σ q : List α} {used : List Nat}
    (hrow : row.length = m) (hσ : σ.length = m) (hq : q.length = m)
    (hσnn : ∀ x ∈ σ, 0 ≤ x) (hσ1 : σ.sum = 1) (hqnn : ∀ x ∈ q, 0 ≤ x)
    (hq0 : ∀ a ∈ used, ∀ h : a < q.length, q[a] = 0)
    (hneg : ∀ a ∈ used, ∀ h : a < row.length, row[a] ≤ 0) :
    let e := listSum (List.zipWith (· * ·) q σ)
    let new := List.zipWith (fun r q => r + (q - e)) row q
    new.length = m ∧
    (∀ a ∈ used, ∀ h : a < new.length, new[a] ≤ 0) ∧
    (List.zipWith (· * ·) σ (List.zipWith (fun r' r => r' - r) new row)).sum = 0 ∧
    (∀ x ∈ new.map Regret.posPart, 0 ≤ x) ∧
    (∀ a ∈ used, ∀ h : a < (new.map Regret.posPart).length, (new.map Regret.posPart)[a] ≤ 0) :=
  node_update hrow hσ hq hσnn hσ1 hqnn hq0 hneg

/-- **average strategy at a node**: given the node's cumulative-strategy row (entries ≥ 0, zero on the
    revealed coalitions — both kept by `strategy += weight · σ · reach` with `σ` as above and reach,
    weight ≥ 0) and an unrevealed viable coalition, `get_average_strategy` succeeds (no 0/0) and returns a
    probability distribution over coalition ids that is 0 on every non-viable id and on every coalition
    already revealed at the node. -/
theorem average_strategy_distribution {rm : RM α} {cs : List Nat} {mc rank : Nat} {row : List α}
    (hid : rm.getMetacoalitionId cs = .ok mc) (hrank : rm.rankOf mc = .ok rank)
    (hrow : getIdx rm.strategy rank = .ok row)
    (hlen : row.length = rm.m) (hnn : ∀ x ∈ row, 0 ≤ x)
    (hsupp : ∀ a ∈ players mc, row[a]? = some 0)
    (hused : ∀ a ∈ players mc, a < rm.m) (hfree : ∃ j, j < rm.m ∧ j ∉ players mc)
    (hpm : PidMapOK rm.pidMap rm.m) :
    ∃ avg, rm.averageStrategy cs = .ok avg ∧ avg.length = rm.pidMap.length ∧ (∀ x ∈ avg, 0 ≤ x) ∧
      avg.sum = 1 ∧
      ∀ c (hc : c < rm.pidMap.length), (rm.pidMap[c] < 0 ∨ rm.pidMap[c].toNat ∈ players mc) →
        avg[c]? = some 0 :=
  averageStrategy_distribution hid hrank hrow hlen hnn hsupp hused hfree hpm

/-- the coalition → player-id map numbers the viable coalitions `0 .. m-1` in id order (n = 3, 4, 5) -/
theorem pid_map_ok : PidMapOK (coalitionPlayerIdMap 3) (numCoalitions 3) ∧
    PidMapOK (coalitionPlayerIdMap 4) (numCoalitions 4) ∧ PidMapOK (coalitionPlayerIdMap 5) (numCoalitions 5) :=
  ⟨pidMapOK_3, pidMapOK_4, pidMapOK_5⟩

/-- … and for every `n ≥ 2`: the `2^n − n − 2` coalitions of size ∉ {0, 1, n} get the player ids
    `0 .. m-1` in id order, everything else −1 -/
theorem pid_map_ok_general {n : Nat} (hn : 2 ≤ n) : PidMapOK (coalitionPlayerIdMap n) (numCoalitions n) :=
  pidMapOK_general hn

/-- **plus**: after every successful iteration of the plus variant all cumulative regrets are ≥ 0 -/
theorem plus_regret_nonneg {rm rm' : RM α} {t : List α} {u : List (List Nat)} (hp : rm.plus = true)
    (h : rm.iterate t u = .ok rm') : ∀ row ∈ rm'.regret, ∀ x ∈ row, 0 ≤ x :=
  iterate_plus_nonneg hp h

end node


/-! ## 3b. the tree -/

section tree
variable {α : Type} [Field α] [LinearOrder α] [IsStrictOrderedRing α]

/-- with the stored limit clipped to the number of viable coalitions, **every node that has a regret
    minimiser has an unrevealed viable coalition** (the side condition of the node theorems) -/
theorem minimiser_nodes_have_unused {p : Policy} {n limit : Nat} {plus : Bool} {rm : RM α}
    (hn : 2 ≤ n) (h : RM.new (α := α) p n limit plus = .ok rm)
    (hst : p.storedLimit (numCoalitions n) limit ≤ min (numCoalitions n) limit) :
    ∀ i (hi : i < rm.rankToId.length), i < rm.R →
      (∀ a ∈ players rm.rankToId[i], a < rm.m) ∧ ∃ j, j < rm.m ∧ j ∉ players rm.rankToId[i] :=
  Regret.minimiser_nodes_have_unused hn h hst

/-- base case of the tree invariant, for every `n ≥ 2`, every limit ≥ 0 and both variants: on a freshly
    constructed object (table covering every id, stored limit clipped) **every** regret minimiser's
    current strategy is a probability distribution supported on the unrevealed coalitions. -/
theorem tree_invariant_base {p : Policy} {n limit : Nat} {plus : Bool} {rm : RM α}
    (hn : 2 ≤ n) (h : RM.new (α := α) p n limit plus = .ok rm)
    (hst : p.storedLimit (numCoalitions n) limit ≤ min (numCoalitions n) limit) :
    ∀ i (hi : i < rm.R),
      ∃ σ, rm.regretMatching (rm.rankToId[i]'(lt_of_lt_of_le hi (R_le_V hn h hst))) = .ok σ ∧ σ.length = rm.m ∧
      (∀ x ∈ σ, 0 ≤ x) ∧ σ.sum = 1 ∧
      ∀ a ∈ players (rm.rankToId[i]'(lt_of_lt_of_le hi (R_le_V hn h hst))), σ[a]? = some 0 := by
  intro i hi
  have hi' : i < rm.rankToId.length := lt_of_lt_of_le hi (R_le_V hn h hst)
  obtain ⟨_, _, _, _, _, _, hrank, _, _, hreg, _, _⟩ := new_spec hn h
  obtain ⟨hused, hfree⟩ := minimiser_nodes_have_unused hn h hst i hi' hi
  have hrow : getIdx rm.regret i = .ok (zeros rm.m) := by
    rw [hreg]
    unfold zeros2
    have : i < (List.replicate rm.R (zeros (α := α) rm.m)).length := by simpa using hi
    rw [getIdx_ok this, List.getElem_replicate]
  refine node_strategy (hrank i hi') hrow (by simp [zeros]) hused ?_ hfree
  intro a _ ha
  simp [zeros]

/-- **admissible inputs of `regret_min_iteration`** (`Regret.ValidInput`, spelled out): every used-action
    list is a set of viable coalitions whose id is ranked (at most `limit` of them); one terminal loss per
    list, or a single one that numpy broadcasts; all terminal losses ≥ 0. -/
theorem validInput_iff (rm : RM α) (terminal : List α) (used : List (List Nat)) :
    ValidInput rm terminal used ↔
      (∀ x ∈ used, ∃ id, rm.getMetacoalitionId x = .ok id ∧ id ∈ rm.rankToId) ∧
      (terminal.length = used.length ∨ terminal.length = 1) ∧ ∀ x ∈ terminal, 0 ≤ x := Iff.rfl

/-- the states of the property: constructed under a policy whose stored limit is clipped (the table
    covers every id since the constructor succeeded), then any history of iterations with admissible
    inputs -/
inductive TreeReachable (p : Policy) : RM α → Prop
  | new {n limit plus rm} : p.storedLimit (numCoalitions n) limit ≤ min (numCoalitions n) limit →
      RM.new (α := α) p n limit plus = .ok rm → TreeReachable p rm
  | iter {rm rm' t u} : TreeReachable p rm → ValidInput rm t u → rm.iterate t u = .ok rm' →
      TreeReachable p rm'

/-- **the invariant**: every rank `< R` (number of regret minimisers) is the rank of a node, and at every
    such node `mc` (of rank `i`):
    the node holds only viable coalitions and has an unrevealed one;
    its cumulative-regret row is ≤ 0 on the revealed coalitions (and ≥ 0 everywhere for `plus`);
    its current strategy is a probability distribution that is 0 on the revealed coalitions;
    its cumulative-strategy row is ≥ 0 and 0 on the revealed coalitions. -/
def TreeInvariant (rm : RM α) : Prop :=
  rm.R ≤ rm.rankToId.length ∧
  ∀ i mc, i < rm.R → rm.rankToId[i]? = some mc →
    ((∀ a ∈ players mc, a < rm.m) ∧ ∃ j, j < rm.m ∧ j ∉ players mc) ∧
    (∃ row : List α, rm.regret[i]? = some row ∧ row.length = rm.m ∧
      (∀ a ∈ players mc, ∀ h : a < row.length, row[a] ≤ 0) ∧ (rm.plus = true → ∀ x ∈ row, 0 ≤ x)) ∧
    (∃ σ : List α, rm.regretMatching mc = .ok σ ∧ σ.length = rm.m ∧ (∀ x ∈ σ, 0 ≤ x) ∧ σ.sum = 1 ∧
      ∀ a ∈ players mc, σ[a]? = some 0) ∧
    (∃ srow : List α, rm.strategy[i]? = some srow ∧ srow.length = rm.m ∧ (∀ x ∈ srow, 0 ≤ x) ∧
      ∀ a ∈ players mc, srow[a]? = some 0)

theorem new_two_le {p : Policy} {n limit : Nat} {plus : Bool} {rm : RM α}
    (h : RM.new (α := α) p n limit plus = .ok rm) : 2 ≤ n := by
  by_contra hcon
  unfold RM.new at h
  have : n < 2 := by omega
  simp [this] at h

/-- every reachable state has the structure the passes rely on and satisfies the loop-free invariant of
    `ICG.Lemmas.RegretTree` -/
theorem reachable_inv {p : Policy} {rm : RM α} (h : TreeReachable p rm) : Struct rm ∧ Inv rm := by
  induction h with
  | new hst h =>
    have hn := new_two_le h
    have hs := new_struct hn h hst
    obtain ⟨_, _, _, _, _, _, _, _, _, hreg, hstr, _⟩ := new_spec hn h
    exact ⟨hs, zero_inv hs hreg hstr⟩
  | iter _ hin hit ih =>
    obtain ⟨rm'', hok, hs', hI', _⟩ := iterate_inv ih.1 ih.2 hin
    rw [hit] at hok
    cases hok
    exact ⟨hs', hI'⟩

theorem treeInvariant_of {rm : RM α} (hs : Struct rm) (hI : Inv rm) : TreeInvariant rm := by
  refine ⟨hs.R_le_V, ?_⟩
  intro i mc hi hmc
  have hir : i < rm.regret.length := by rw [hI.regret_len]; exact hi
  have his : i < rm.strategy.length := by rw [hI.strategy_len]; exact hi
  refine ⟨⟨hs.used_lt i mc hi hmc, hs.unused i mc hi hmc⟩,
    ⟨rm.regret[i], List.getElem?_eq_getElem hir, hI.regret_row _ (List.getElem_mem _),
      hI.used_nonpos i mc _ hmc (List.getElem?_eq_getElem hir),
      fun hp => hI.plus_nonneg hp _ (List.getElem_mem _)⟩,
    hI.strat hs i mc hi hmc,
    ⟨rm.strategy[i], List.getElem?_eq_getElem his, (hI.strategy_row _ (List.getElem_mem _)).1,
      (hI.strategy_row _ (List.getElem_mem _)).2, hI.strategy_supp i mc _ hmc (List.getElem?_eq_getElem his)⟩⟩

/-- **tree invariant (the induction over iterations for the whole tree).**  For every `n ≥ 2`, every
    limit, plain / plus, under a policy whose table covers every id and whose stored limit is clipped to
    `min m limit` (the repaired policy), after every history of iterations with admissible inputs
    (non-negative terminal losses):
    the invariant holds at every node that has a regret minimiser, and the next `regret_min_iteration`
    with admissible inputs **returns `.ok`** (every index of both passes is in range, no 0/0) in a state
    that satisfies the invariant again. -/
theorem tree_invariant {p : Policy} {rm : RM α} (h : TreeReachable p rm) :
    TreeInvariant rm ∧
    ∀ t u, ValidInput rm t u → ∃ rm', rm.iterate t u = .ok rm' ∧ TreeReachable p rm' ∧ TreeInvariant rm' := by
  obtain ⟨hs, hI⟩ := reachable_inv h
  refine ⟨treeInvariant_of hs hI, fun t u hin => ?_⟩
  obtain ⟨rm', hok, hs', hI', _⟩ := iterate_inv hs hI hin
  exact ⟨rm', hok, .iter h hin hok, treeInvariant_of hs' hI'⟩

/-- the repaired policy clips the stored limit -/
theorem repaired_clips (m limit : Nat) : Policy.repaired.storedLimit m limit ≤ min m limit := le_refl _

/-- the current policy does not (limit > m): the reason for `current_nan` -/
example : ¬ Policy.current.storedLimit 3 4 ≤ min 3 4 := by decide

/-- **current strategy, every reachable state**: at every node that has a regret minimiser,
    `regret_matching_strategy` (by id and by list of revealed coalitions) succeeds and returns a probability
    distribution that is 0 on the coalitions already revealed at the node — i.e. supported on viable,
    not yet revealed coalitions (there are only viable positions, `σ.length = m`). -/
theorem current_strategy_distribution {p : Policy} {rm : RM α} (h : TreeReachable p rm) {i mc : Nat}
    (hi : i < rm.R) (hmc : rm.rankToId[i]? = some mc) :
    ∃ σ, rm.regretMatching mc = .ok σ ∧
      (∀ cs, rm.getMetacoalitionId cs = .ok mc → rm.regretMatchingOf cs = .ok σ) ∧
      σ.length = rm.m ∧ (∀ x ∈ σ, 0 ≤ x) ∧ σ.sum = 1 ∧ ∀ a ∈ players mc, σ[a]? = some 0 := by
  obtain ⟨_, _, ⟨σ, hσ, rest⟩, _⟩ := (tree_invariant h).1.2 i mc hi hmc
  refine ⟨σ, hσ, ?_, rest⟩
  intro cs hcs
  unfold RM.regretMatchingOf
  rw [hcs, ok_bind, hσ]

/-- in every reachable state the coalition → player-id map is the constructor's -/
theorem reachable_pidMap {p : Policy} {rm : RM α} (h : TreeReachable p rm) : PidMapOK rm.pidMap rm.m := by
  induction h with
  | new _ h =>
    have hn := new_two_le h
    obtain ⟨_, h2, _, _, _, _, _, _, h9, _⟩ := new_spec hn h
    rw [h2, h9]; exact pidMapOK_general hn
  | iter _ _ hit ih => rw [iterate_frame hit]; exact ih

/-- **average strategy, every reachable state**: at every node that has a regret minimiser,
    `get_average_strategy` succeeds (no 0/0) and returns a probability distribution over coalition ids
    that is 0 on every non-viable id and on every coalition already revealed at the node. -/
theorem average_strategy_distribution_reachable {p : Policy} {rm : RM α} (h : TreeReachable p rm)
    {cs : List Nat} {i mc : Nat}
    (hid : rm.getMetacoalitionId cs = .ok mc) (hi : i < rm.R) (hmc : rm.rankToId[i]? = some mc) :
    ∃ avg, rm.averageStrategy cs = .ok avg ∧ avg.length = rm.pidMap.length ∧ (∀ x ∈ avg, 0 ≤ x) ∧
      avg.sum = 1 ∧
      ∀ c (hc : c < rm.pidMap.length), (rm.pidMap[c] < 0 ∨ rm.pidMap[c].toNat ∈ players mc) →
        avg[c]? = some 0 := by
  obtain ⟨hs, _⟩ := reachable_inv h
  obtain ⟨⟨hused, hfree⟩, _, _, ⟨srow, hsrow, hlen, hnn, hsupp⟩⟩ := (tree_invariant h).1.2 i mc hi hmc
  have hiV : i < rm.rankToId.length := lt_of_lt_of_le hi hs.R_le_V
  have hrank : rm.rankOf mc = .ok i := by
    obtain ⟨_, hh⟩ := List.getElem?_eq_some_iff.mp hmc
    rw [← hh]; exact hs.rank_id i hiV
  exact averageStrategy_distribution hid hrank (getIdx_of_getElem? hsrow) hlen hnn hsupp hused hfree
    (reachable_pidMap h)

/-- **orthogonality, every reachable state**: in an iteration from a reachable state, at every node that
    has a regret minimiser, the regret added (`add`, before the clipping of the plus variant) is
    orthogonal to the strategy `σ` played at the node; for the plain variant that is `row' − row`. -/
theorem orthogonality_reachable {p : Policy} {rm rm' : RM α} (h : TreeReachable p rm) {t : List α}
    {u : List (List Nat)} (hin : ValidInput rm t u) (hit : rm.iterate t u = .ok rm') {i mc : Nat}
    (hi : i < rm.R) (hmc : rm.rankToId[i]? = some mc) :
    ∃ σ row row' add : List α, rm.regretMatching mc = .ok σ ∧ rm.regret[i]? = some row ∧
      rm'.regret[i]? = some row' ∧ add.length = rm.m ∧
      (List.zipWith (· * ·) σ add).sum = 0 ∧
      row' = (if rm.plus then (List.zipWith (· + ·) row add).map Regret.posPart else List.zipWith (· + ·) row add) ∧
      (rm.plus = false → (List.zipWith (· * ·) σ (List.zipWith (fun r' r => r' - r) row' row)).sum = 0) := by
  obtain ⟨hs, hI⟩ := reachable_inv h
  obtain ⟨rm'', hok, _, _, hnode⟩ := iterate_inv hs hI hin
  rw [hit] at hok
  cases hok
  obtain ⟨σ, row, add, hσ, hrow, hal, horth, hrow'⟩ := hnode i mc hi hmc
  refine ⟨σ, row, _, add, hσ, hrow, hrow', hal, horth, rfl, ?_⟩
  intro hp
  have hrl : row.length = rm.m := hI.regret_row _ (List.mem_of_getElem? hrow)
  simp only [hp, Bool.false_eq_true, if_false]
  rw [zipWith_add_sub_cancel row add (by rw [hrl, hal])]
  exact horth

/-- **plus, every reachable state**: all cumulative regrets of the plus variant are ≥ 0 -/
theorem plus_nonneg_reachable {p : Policy} {rm : RM α} (h : TreeReachable p rm) (hp : rm.plus = true) :
    ∀ row ∈ rm.regret, ∀ x ∈ row, 0 ≤ x :=
  (reachable_inv h).2.plus_nonneg hp

/-- the regret of a revealed coalition is never positive in a reachable state (so revealed coalitions are
    never played again) -/
theorem used_regret_nonpos_reachable {p : Policy} {rm : RM α} (h : TreeReachable p rm) {i mc : Nat}
    {row : List α} (hmc : rm.rankToId[i]? = some mc) (hrow : rm.regret[i]? = some row) :
    ∀ a ∈ players mc, ∀ ha : a < row.length, row[a] ≤ 0 :=
  (reachable_inv h).2.used_nonpos i mc row hmc hrow

end tree

/-- the hypotheses are satisfiable by a non-trivial instance: `n = 3`, `limit = 2`, the repository's own
    test vector as the first iteration, then a second iteration from the state reached -/
example : ∃ rm rm' rm'' : RM ℚ, RM.new Policy.repaired 3 2 false = .ok rm ∧
    ValidInput rm [1, 0, 0] [[3, 5], [5, 6], [3, 6]] ∧ rm.iterate [1, 0, 0] [[3, 5], [5, 6], [3, 6]] = .ok rm' ∧
    ValidInput rm' [0, 2, 1] [[3, 5], [5, 6], [3, 6]] ∧ rm'.iterate [0, 2, 1] [[3, 5], [5, 6], [3, 6]] = .ok rm'' ∧
    TreeReachable Policy.repaired rm'' ∧ TreeInvariant rm'' := by
  obtain ⟨rm, hnew, hn, _, _, _, hids, _⟩ :=
    constructible (α := ℚ) Policy.repaired (n := 3) (by decide) 2 false (repaired_covers _)
  obtain ⟨_, _, _, _, _, _, _, _, hpm, _⟩ := new_spec (by decide) hnew
  have hvalid : ∀ rm1 : RM ℚ, rm1.n = 3 → rm1.pidMap = coalitionPlayerIdMap 3 → rm1.rankToId = metaIds 3 2 →
      ∀ t : List ℚ, t.length = 3 → (∀ x ∈ t, 0 ≤ x) → ValidInput rm1 t [[3, 5], [5, 6], [3, 6]] := by
    intro rm1 h1 h2 h3 t ht hnn
    refine ⟨?_, Or.inl ht, hnn⟩
    intro x hx
    simp only [getMetacoalitionId_eq, h1, h2, h3]
    simp only [List.mem_cons, List.not_mem_nil, or_false] at hx
    rcases hx with rfl | rfl | rfl
    · exact ⟨3, by decide +kernel, by decide +kernel⟩
    · exact ⟨6, by decide +kernel, by decide +kernel⟩
    · exact ⟨5, by decide +kernel, by decide +kernel⟩
  have hr0 : TreeReachable Policy.repaired rm := .new (repaired_clips _ _) hnew
  have hv0 := hvalid rm hn hpm hids [1, 0, 0] rfl (by decide)
  obtain ⟨rm', hit1, hr1, _⟩ := (tree_invariant hr0).2 _ _ hv0
  have hf := iterate_frame hit1
  have hv1 := hvalid rm' (by rw [hf]; exact hn) (by rw [hf]; exact hpm) (by rw [hf]; exact hids)
    [0, 2, 1] rfl (by decide)
  obtain ⟨rm'', hit2, hr2, hinv2⟩ := (tree_invariant hr1).2 _ _ hv1
  exact ⟨rm, rm', rm'', hnew, hv0, hit1, hv1, hit2, hr2, hinv2⟩

/-- the theorems are about the functions the driver runs (core `Rat` instances) -/
example {rm : RM Rat} (h : TreeReachable (α := ℚ) Policy.repaired rm) {t : List Rat} {u : List (List Nat)}
    (hin : ValidInput (α := ℚ) rm t u) : ∃ rm', RM.iterate (α := Rat) rm t u = .ok rm' :=
  let ⟨rm', h', _⟩ := (tree_invariant h).2 t u hin
  ⟨rm', h'⟩

/-- on that instance the conclusions can be observed: both iterations return, every current strategy of
    the final state sums to 1, every regret row is orthogonal-updated (root shown), plus keeps regrets ≥ 0 -/
example : holds (do
    let rm ← RM.new (α := Rat) Policy.repaired 3 2 true
    let rm ← rm.iterate [1, 0, 0] [[3, 5], [5, 6], [3, 6]]
    let rm ← rm.iterate [0, 2, 1] [[3, 5], [5, 6], [3, 6]]
    let σs ← (List.range rm.R).mapM (fun i => do let mc ← getIdx rm.rankToId i; rm.regretMatching mc)
    pure (decide (rm.R = 4 ∧ σs.all (fun σ => listSum σ == 1 && σ.all (fun x => decide (0 ≤ x))) ∧
      rm.regret.all (fun row => row.all (fun x => decide (0 ≤ x)))))) = true := by
  decide +kernel

example : holds (do
    let rm ← RM.new (α := Rat) Policy.repaired 3 2 false
    let σ ← rm.regretMatching 2
    pure (decide (σ = [1/2, 0, 1/2]))) = true := by decide +kernel

/-- the repository's own test vector (tests/test_regret.py, `test_apply_regret`): regret of the root and
    average strategy of the root after one iteration -/
example : holds (do
    let rm ← RM.new (α := Rat) Policy.repaired 3 2 false
    let rm ← rm.iterate [1, 0, 0] [[3, 5], [5, 6], [3, 6]]
    let avg ← rm.averageStrategy []
    pure (decide (rm.regret.head? = some [1/6, 1/6, -1/3] ∧ avg = [0, 0, 0, 1/3, 0, 1/3, 1/3, 0]))) = true := by
  decide +kernel

/-- the theorems are about the functions the driver runs (core `Rat` instances) -/
example : ∃ σ, regretMatchingRow (α := Rat) 3 [1/6, 1/6, -1/3] [2] = .ok σ ∧ σ.length = 3 ∧
    (∀ x ∈ σ, 0 ≤ x) ∧ σ.sum = 1 ∧ ∀ i ∈ [2], σ[i]? = some 0 :=
  strategy_distribution (α := ℚ) rfl (by decide) (by decide +kernel) ⟨0, by decide, by decide⟩

example : regretMatchingRow (α := Rat) 3 [1/6, 1/6, -1/3] [2] = .ok [1/2, 1/2, 0] := by decide +kernel
example : regretMatchingRow (α := Rat) 3 [0, -1, -1/3] [1] = .ok [1/2, 0, 1/2] := by decide +kernel
/-- without an unused coalition the model reports the 0/0 instead of returning zeros -/
example : regretMatchingRow (α := Rat) 3 [0, 0, 0] [0, 1, 2] = .error .nan := by decide +kernel

/-! ## 4. save / load -/

section saveload
variable {α : Type} [Field α] [LinearOrder α] [IsStrictOrderedRing α]

/-- states reachable from the constructor by iterations -/
inductive Reachable (p : Policy) : RM α → Prop
  | new {n limit plus rm} : p.Stable (numCoalitions n) limit → RM.new (α := α) p n limit plus = .ok rm →
      Reachable p rm
  | iter {rm rm' t u} : Reachable p rm → rm.iterate t u = .ok rm' → Reachable p rm'

/-- **save / load**: for every reachable state, `load (save s) = s` — the loaded minimiser is the same
    value, so every later call returns the same on both.  (Both `Policy.current` and `Policy.repaired`
    are `Stable` for every `m`, `limit`.) -/
theorem load_save {p : Policy} {rm : RM α} (h : Reachable p rm) : RM.load p rm.save = .ok rm := by
  apply Regret.load_save
  induction h with
  | new hs h => exact new_built hs h
  | iter _ h ih => exact iterate_built ih h

theorem load_save_current {rm : RM α} {n limit plus} (h : RM.new (α := α) Policy.current n limit plus = .ok rm) :
    RM.load Policy.current rm.save = .ok rm :=
  load_save (.new (Policy.current_stable _ _) h)

theorem load_save_repaired {rm : RM α} {n limit plus} (h : RM.new (α := α) Policy.repaired n limit plus = .ok rm) :
    RM.load Policy.repaired rm.save = .ok rm :=
  load_save (.new (Policy.repaired_stable _ _) h)

end saveload

example : holds (do
    let rm ← RM.new (α := Rat) Policy.repaired 3 2 true
    let rm ← rm.iterate [1, 0, 0] [[3, 5], [5, 6], [3, 6]]
    let rm' ← RM.load Policy.repaired rm.save
    pure (decide (rm'.regret = rm.regret ∧ rm'.strategy = rm.strategy ∧ rm'.iteration = 1))) = true := by
  decide +kernel

end ICG.C14
