/-
  Property C14 — the regret minimiser (ICG.Model.Regret, the model of incomplete_cooperative/regret.py).

  "A regret minimiser can be constructed for every player count it can represent and every reveal limit
   ≥ 1, and its ranking of coalition sets is a bijection ordered by set size.  After any number of
   iterations with non-negative terminal values, every current and every average strategy is a probability
   distribution supported only on viable coalitions not yet revealed at that node, the regret added at a
   node is orthogonal to the strategy played there, the 'plus' variant keeps cumulative regret
   non-negative, and a saved-then-loaded minimiser continues identically."

  The model has an allocation `Policy` (length of the id → rank table, stored limit).  `Policy.current` is
  the tree as it is: `current_index_error` and `current_nan` are the two ways it FAILS the property;
  `constructible` / `constructible_repaired` and the invariants are for policies whose table covers every
  id and whose stored limit is at most the number of viable coalitions.
-/
import ICG.Model.Regret
import ICG.Lemmas.Regret
import ICG.Lemmas.RegretNode
import ICG.Lemmas.RegretIter
import ICG.Lemmas.RegretAvg
import Mathlib.Algebra.Order.Field.Basic
import Mathlib.Algebra.Order.Field.Rat

set_option linter.unusedSectionVars false

namespace ICG.C14
open ICG ICG.Regret

/-! ## 1. ranking -/

/-- **ranking**: for every `m` and `limit` the rank → id list is duplicate-free, sorted by set size
    (popcount), and consists exactly of the masks over `m` bits with at most `min limit m` bits;
    `np.fromiter(.., count=coalitions_up_to(..))` receives exactly that list, whose length is
    `Σ_{k ≤ min m limit} C(m, k)`. -/
theorem ranking (m limit : Nat) :
    (metaIds m limit).Nodup ∧
    (metaIds m limit).Pairwise (fun a b => size a ≤ size b) ∧
    (∀ x, x ∈ metaIds m limit ↔ x < 2 ^ m ∧ size x ≤ min limit m) ∧
    metaIdsArr m limit = .ok (metaIds m limit) ∧
    (metaIds m limit).length = ((List.range (min m limit + 1)).map (Nat.choose m)).sum :=
  ⟨metaIds_nodup m limit, metaIds_sorted m limit, fun _ => mem_metaIds, metaIdsArr_eq m limit,
   by rw [length_metaIds, coalitionsUpTo_eq]⟩

example : metaIds 3 2 = [0, 1, 2, 4, 3, 5, 6] := by decide +kernel
example : metaIds 3 60 = [0, 1, 2, 4, 3, 5, 6, 7] := by decide +kernel
example : (metaIds 10 5).length = 638 := by decide +kernel

/-! ## 2. construction -/

section ctor
variable {α : Type} [Zero α]

/-- **construction fails iff some id does not fit the table** (`n ≥ 2`; for `n < 2` numpy rejects the
    negative array shape), and then with an IndexError. -/
theorem construction_ok_iff (p : Policy) {n : Nat} (hn : 2 ≤ n) (limit : Nat) (plus : Bool) :
    (∃ rm, RM.new (α := α) p n limit plus = .ok rm) ↔
      ∀ id ∈ metaIds (numCoalitions n) limit, id < p.tableLen (metaIds (numCoalitions n) limit) :=
  new_ok_iff p hn limit plus

theorem construction_fails_iff (p : Policy) {n : Nat} (hn : 2 ≤ n) (limit : Nat) (plus : Bool) :
    RM.new (α := α) p n limit plus = .error .index ↔
      ∃ id ∈ metaIds (numCoalitions n) limit, p.tableLen (metaIds (numCoalitions n) limit) ≤ id :=
  new_error_iff p hn limit plus

/-- the current code: fails iff some id ≥ the number of ids -/
theorem current_fails_iff {n : Nat} (hn : 2 ≤ n) (limit : Nat) (plus : Bool) :
    RM.new (α := α) Policy.current n limit plus = .error .index ↔
      ∃ id ∈ metaIds (numCoalitions n) limit, (metaIds (numCoalitions n) limit).length ≤ id :=
  new_error_iff Policy.current hn limit plus

/-- **constructible**: with a table longer than every id (e.g. `2^m`, or largest id + 1) the constructor
    succeeds for every `n ≥ 2`, every limit, and `rank ∘ id` is the identity on ranks. -/
theorem constructible (p : Policy) {n : Nat} (hn : 2 ≤ n) (limit : Nat) (plus : Bool)
    (hp : ∀ id ∈ metaIds (numCoalitions n) limit, id < p.tableLen (metaIds (numCoalitions n) limit)) :
    ∃ rm, RM.new (α := α) p n limit plus = .ok rm ∧
      rm.n = n ∧ rm.m = numCoalitions n ∧ rm.plus = plus ∧ rm.limit = p.storedLimit (numCoalitions n) limit ∧
      rm.rankToId = metaIds (numCoalitions n) limit ∧
      (∀ r (hr : r < rm.rankToId.length), rm.rankOf rm.rankToId[r] = .ok r) ∧
      rm.R = coalitionsBelow rm.m rm.limit ∧
      rm.regret = zeros2 rm.R rm.m ∧ rm.strategy = zeros2 rm.R rm.m ∧ rm.iteration = 0 := by
  obtain ⟨rm, h⟩ := (new_ok_iff (α := α) p hn limit plus).mpr hp
  obtain ⟨h1, h2, h3, h4, h5, _, h7, h8, _, h10, h11, h12⟩ := new_spec hn h
  exact ⟨rm, h, h1, h2, h4, h3, h5, h7, h8, h10, h11, h12⟩

theorem repaired_covers (ids : List Nat) : ∀ id ∈ ids, id < Policy.repaired.tableLen ids := by
  intro id hid
  have := (le_foldl_max ids 0).2 id hid
  show id < ids.foldl max 0 + 1
  omega

/-- the candidate repair (largest id + 1 slots) is constructible for every `n ≥ 2` and every limit -/
theorem constructible_repaired {n : Nat} (hn : 2 ≤ n) (limit : Nat) (plus : Bool) :
    ∃ rm, RM.new (α := α) Policy.repaired n limit plus = .ok rm ∧
      rm.rankToId = metaIds (numCoalitions n) limit ∧
      (∀ r (hr : r < rm.rankToId.length), rm.rankOf rm.rankToId[r] = .ok r) ∧
      rm.limit = min (numCoalitions n) limit := by
  obtain ⟨rm, h, _, _, _, h4, h5, h6, _⟩ :=
    constructible (α := α) Policy.repaired hn limit plus (repaired_covers _)
  exact ⟨rm, h, h5, h6, h4⟩

/-- so is a table of `2^m` slots -/
theorem constructible_pow {n : Nat} (hn : 2 ≤ n) (limit stored : Nat) (plus : Bool) :
    ∃ rm, RM.new (α := α) (Policy.explicit (2 ^ numCoalitions n) stored) n limit plus = .ok rm :=
  (new_ok_iff _ hn limit plus).mpr (fun _ hid => (mem_metaIds.mp hid).1)

end ctor

/-- the error of a result, if any (lets `decide` talk about outcomes of a type without `DecidableEq`) -/
def errOf {β} : Except Err β → Option Err
  | .ok _ => none
  | .error e => some e

/-- the Boolean a computation returns (`false` when it raised) -/
def holds : Except Err Bool → Bool
  | .ok b => b
  | .error _ => false

/-- **C14 fails on the current tree (a)**: `GameRegretMinimizer(3, 1)` raises IndexError. -/
theorem current_index_error :
    RM.new (α := Rat) Policy.current 3 1 false = .error .index := by
  rw [current_fails_iff (by decide)]
  exact ⟨4, by decide +kernel, by decide +kernel⟩

/-- … and so do n = 4, limits 1 … 8 (the largest id 2^10 − 2^(10−limit) is ≥ the number of ids) -/
theorem current_index_error_n4 : ∀ limit ∈ [1, 2, 3, 4, 5, 6, 7, 8], ∀ plus,
    RM.new (α := Rat) Policy.current 4 limit plus = .error .index := by
  intro limit hl plus
  rw [current_fails_iff (by decide)]
  simp only [List.mem_cons, List.not_mem_nil, or_false] at hl
  rcases hl with rfl | rfl | rfl | rfl | rfl | rfl | rfl | rfl
  · exact ⟨512, by decide +kernel, by decide +kernel⟩
  · exact ⟨768, by decide +kernel, by decide +kernel⟩
  · exact ⟨896, by decide +kernel, by decide +kernel⟩
  · exact ⟨960, by decide +kernel, by decide +kernel⟩
  · exact ⟨992, by decide +kernel, by decide +kernel⟩
  · exact ⟨1008, by decide +kernel, by decide +kernel⟩
  · exact ⟨1016, by decide +kernel, by decide +kernel⟩
  · exact ⟨1020, by decide +kernel, by decide +kernel⟩

/-- the same inputs are fine under the repaired allocation -/
example : errOf (RM.new (α := Rat) Policy.repaired 3 1 false) = none := by decide +kernel

/-- **C14 fails on the current tree (b)**: n = 3, limit = 4 (> 3 viable coalitions) constructs, but the
    all-revealed node 7 has a regret minimiser whose strategy is 0/0, and one iteration with the
    non-negative terminal value 1 ends in NaN. -/
theorem current_nan :
    errOf (RM.new (α := Rat) Policy.current 3 4 false) = none ∧
    errOf (do let rm ← RM.new (α := Rat) Policy.current 3 4 false; rm.regretMatching 7) = some .nan ∧
    errOf (do let rm ← RM.new (α := Rat) Policy.current 3 4 false; rm.iterate [1] [[3, 5, 6]]) = some .nan := by
  decide +kernel

/-- with the stored limit clipped the same call is fine -/
example : errOf (do let rm ← RM.new (α := Rat) Policy.repaired 3 4 false; rm.iterate [1] [[3, 5, 6]]) = none := by
  decide +kernel

/-! ## 3. one node -/

section node
variable {α : Type} [Field α] [LinearOrder α] [IsStrictOrderedRing α]

/-- **current strategy at a node**: if the cumulative regret of every already revealed coalition is ≤ 0
    (kept by `used_regret_stays_nonpos`) and some viable coalition is not yet revealed, regret matching
    succeeds (no 0/0) and returns a probability distribution that is 0 on the revealed coalitions. -/
theorem strategy_distribution {m : Nat} {row : List α} {used : List Nat}
    (hlen : row.length = m) (hused : ∀ i ∈ used, i < m)
    (hneg : ∀ i ∈ used, ∀ h : i < row.length, row[i] ≤ 0)
    (hfree : ∃ j, j < m ∧ j ∉ used) :
    ∃ σ, regretMatchingRow m row used = .ok σ ∧ σ.length = m ∧ (∀ x ∈ σ, 0 ≤ x) ∧ σ.sum = 1 ∧
      ∀ i ∈ used, σ[i]? = some 0 :=
  regretMatchingRow_distribution hlen hused hneg hfree

/-- **orthogonality**: the regret added at a node, `q_a − Σ_b q_b σ_b`, is orthogonal to the strategy
    `σ` played there (any `q`, any `σ` summing to 1). -/
theorem added_regret_orthogonal {σ q : List α} (hlen : σ.length = q.length) (hs : σ.sum = 1) :
    (List.zipWith (· * ·) σ (q.map (· - listSum (List.zipWith (· * ·) q σ)))).sum = 0 :=
  update_orthogonal hlen hs

/-- … and `new row − old row` of the code's update `r += q − e` is that added regret -/
theorem added_regret_eq (r q : List α) (e : α) (h : r.length = q.length) :
    List.zipWith (fun r' r => r' - r) (List.zipWith (fun r q => r + (q - e)) r q) r = q.map (· - e) :=
  regret_update_sub r q e h

/-- the regret of a revealed coalition (q-value 0) stays ≤ 0 when the experienced loss is ≥ 0 … -/
theorem used_regret_stays_nonpos {r e : α} (hr : r ≤ 0) (he : 0 ≤ e) : r + (0 - e) ≤ 0 :=
  used_regret_nonpos hr he

/-- … which it is for non-negative q-values and a non-negative strategy -/
theorem experienced_nonneg (q σ : List α) (hq : ∀ x ∈ q, 0 ≤ x) (hσ : ∀ x ∈ σ, 0 ≤ x) :
    0 ≤ listSum (List.zipWith (· * ·) q σ) := by
  rw [listSum_eq_sum]; exact dot_nonneg q σ hq hσ


/-- the same at a node of the object: `regret_matching_strategy(mc)` for the node ranked `i` -/
theorem node_strategy_distribution {rm : RM α} {mc i : Nat} {row : List α}
    (hrank : rm.rankOf mc = .ok i) (hrow : getIdx rm.regret i = .ok row) (hlen : row.length = rm.m)
    (hused : ∀ a ∈ players mc, a < rm.m) (hneg : ∀ a ∈ players mc, ∀ h : a < row.length, row[a] ≤ 0)
    (hfree : ∃ j, j < rm.m ∧ j ∉ players mc) :
    ∃ σ, rm.regretMatching mc = .ok σ ∧ σ.length = rm.m ∧ (∀ x ∈ σ, 0 ≤ x) ∧ σ.sum = 1 ∧
      ∀ a ∈ players mc, σ[a]? = some 0 :=
  node_strategy hrank hrow hlen hused hneg hfree

/-- **one node, one iteration** (the induction step of the tree invariant, at one node): with `σ` the
    distribution played, `q ≥ 0` the q-values (0 on the revealed coalitions, which are never assigned) and
    `e = Σ q σ`, the updated row `row + (q − e)` is still ≤ 0 on the revealed coalitions, the difference to
    the old row is orthogonal to `σ`, and the plus-clipped row is ≥ 0 and still ≤ 0 on the revealed ones. -/
theorem node_update_invariants {m : Nat} {row σ q : List α} {used : List Nat}
    (hrow : row.length = m) (hσ : σ.length = m) (hq : q.length = m)
    (hσnn : ∀ x ∈ σ, 0 ≤ x) (hσ1 : σ.sum = 1) (hqnn : ∀ x ∈ q, 0 ≤ x)
    (hq0 : ∀ a ∈ used, ∀ h : a < q.length, q[a] = 0)
    (hneg : ∀ a ∈ used, ∀ h : a < row.length, row[a] ≤ 0) :
    let e := listSum (List.zipWith (· * ·) q σ)
    let new := List.zipWith (fun r q => r + (q - e)) row q
    new.length = m ∧
    (∀ a ∈ used, ∀ h : a < new.length, new[a] ≤ 0) ∧
    (List.zipWith (· * ·) σ (List.zipWith (fun r' r => r' - r) new row)).sum = 0 ∧
    (∀ x ∈ new.map Regret.posPart, 0 ≤ x) ∧
    (∀ a ∈ used, ∀ h : a < (new.map Regret.posPart).length, (new.map Regret.posPart)[a] ≤ 0) :=
  node_update hrow hσ hq hσnn hσ1 hqnn hq0 hneg

/-- **average strategy at a node**: given the node's cumulative-strategy row (entries ≥ 0, zero on the
    revealed coalitions — both kept by `strategy += weight · σ · reach` with `σ` as above and reach,
    weight ≥ 0) and an unrevealed viable coalition, `get_average_strategy` succeeds (no 0/0) and returns a
    probability distribution over coalition ids that is 0 on every non-viable id and on every coalition
    already revealed at the node. -/
theorem average_strategy_distribution {rm : RM α} {cs : List Nat} {mc rank : Nat} {row : List α}
    (hid : rm.getMetacoalitionId cs = .ok mc) (hrank : rm.rankOf mc = .ok rank)
    (hrow : getIdx rm.strategy rank = .ok row)
    (hlen : row.length = rm.m) (hnn : ∀ x ∈ row, 0 ≤ x)
    (hsupp : ∀ a ∈ players mc, row[a]? = some 0)
    (hused : ∀ a ∈ players mc, a < rm.m) (hfree : ∃ j, j < rm.m ∧ j ∉ players mc)
    (hpm : PidMapOK rm.pidMap rm.m) :
    ∃ avg, rm.averageStrategy cs = .ok avg ∧ avg.length = rm.pidMap.length ∧ (∀ x ∈ avg, 0 ≤ x) ∧
      avg.sum = 1 ∧
      ∀ c (hc : c < rm.pidMap.length), (rm.pidMap[c] < 0 ∨ rm.pidMap[c].toNat ∈ players mc) →
        avg[c]? = some 0 :=
  averageStrategy_distribution hid hrank hrow hlen hnn hsupp hused hfree hpm

/-- the coalition → player-id map numbers the viable coalitions `0 .. m-1` in id order (n = 3, 4, 5) -/
theorem pid_map_ok : PidMapOK (coalitionPlayerIdMap 3) (numCoalitions 3) ∧
    PidMapOK (coalitionPlayerIdMap 4) (numCoalitions 4) ∧ PidMapOK (coalitionPlayerIdMap 5) (numCoalitions 5) :=
  ⟨pidMapOK_3, pidMapOK_4, pidMapOK_5⟩

/-- **plus**: after every successful iteration of the plus variant all cumulative regrets are ≥ 0 -/
theorem plus_regret_nonneg {rm rm' : RM α} {t : List α} {u : List (List Nat)} (hp : rm.plus = true)
    (h : rm.iterate t u = .ok rm') : ∀ row ∈ rm'.regret, ∀ x ∈ row, 0 ≤ x :=
  iterate_plus_nonneg hp h

end node


/-! ## 3b. the tree -/

section tree
variable {α : Type} [Field α] [LinearOrder α] [IsStrictOrderedRing α]

/-- with the stored limit clipped to the number of viable coalitions, **every node that has a regret
    minimiser has an unrevealed viable coalition** (the side condition of the node theorems) -/
theorem minimiser_nodes_have_unused {p : Policy} {n limit : Nat} {plus : Bool} {rm : RM α}
    (hn : 2 ≤ n) (h : RM.new (α := α) p n limit plus = .ok rm)
    (hst : p.storedLimit (numCoalitions n) limit ≤ min (numCoalitions n) limit) :
    ∀ i (hi : i < rm.rankToId.length), i < rm.R →
      (∀ a ∈ players rm.rankToId[i], a < rm.m) ∧ ∃ j, j < rm.m ∧ j ∉ players rm.rankToId[i] :=
  Regret.minimiser_nodes_have_unused hn h hst

/-
  FULL STATEMENT (tree induction) — not proved as one theorem:

    theorem tree_invariant (rm reachable from `RM.new p n limit plus`, p covering every id, stored limit
        ≤ min m limit, terminal losses ≥ 0, used_actions = lists of viable coalitions ranked in the table) :
      ∃ rm', rm.iterate terminal used = .ok rm' ∧
        ∀ i < R: strategy of node i before and after is a distribution with support on unused coalitions,
                 regret' i − regret i ⟂ strategy i (plain), regret' ≥ 0 (plus), regret' ≤ 0 on used,
                 cumulative strategy ≥ 0 and 0 on used  (⇒ average strategy by `average_strategy_distribution`)

  PROVED: the base case for every n ≥ 2 and limit (`tree_invariant_partial` below); the induction step at
  one node in full generality (`node_update_invariants`, `strategy_distribution`,
  `average_strategy_distribution`, `experienced_nonneg`); `plus_regret_nonneg` and the frame
  (`Regret.iterate_frame`: tables, R, m, limit unchanged) for the whole iteration; that every minimiser
  node has an unused coalition (`minimiser_nodes_have_unused`).
  MISSING: the bookkeeping that threads these through the two `foldlM` passes of `RM.iterate` — that
  under the structural facts above every `getIdx` / `assignMany` of the passes is in range (so the
  iteration returns `.ok`), that reach probabilities and experienced losses stay ≥ 0 entrywise, that
  `q[i]` is written only at step `i`, only at unused positions, with entries of `exp`, and that `exp[i]`
  is not overwritten after step `i`.  None of it needs the tree structure beyond "child ids are ranked".
  The correspondence stream checks exactly these clauses on the real code at every node and iteration.
-/

/-- base case of the tree invariant, for every `n ≥ 2`, every limit ≥ 0 and both variants: on a freshly
    constructed object (table covering every id, stored limit clipped) **every** regret minimiser's
    current strategy is a probability distribution supported on the unrevealed coalitions. -/
theorem tree_invariant_partial {p : Policy} {n limit : Nat} {plus : Bool} {rm : RM α}
    (hn : 2 ≤ n) (h : RM.new (α := α) p n limit plus = .ok rm)
    (hst : p.storedLimit (numCoalitions n) limit ≤ min (numCoalitions n) limit) :
    ∀ i (hi : i < rm.R),
      ∃ σ, rm.regretMatching (rm.rankToId[i]'(lt_of_lt_of_le hi (R_le_V hn h hst))) = .ok σ ∧ σ.length = rm.m ∧
      (∀ x ∈ σ, 0 ≤ x) ∧ σ.sum = 1 ∧
      ∀ a ∈ players (rm.rankToId[i]'(lt_of_lt_of_le hi (R_le_V hn h hst))), σ[a]? = some 0 := by
  intro i hi
  have hi' : i < rm.rankToId.length := lt_of_lt_of_le hi (R_le_V hn h hst)
  obtain ⟨_, _, _, _, _, _, hrank, _, _, hreg, _, _⟩ := new_spec hn h
  obtain ⟨hused, hfree⟩ := minimiser_nodes_have_unused hn h hst i hi' hi
  have hrow : getIdx rm.regret i = .ok (zeros rm.m) := by
    rw [hreg]
    unfold zeros2
    have : i < (List.replicate rm.R (zeros (α := α) rm.m)).length := by simpa using hi
    rw [getIdx_ok this, List.getElem_replicate]
  refine node_strategy (hrank i hi') hrow (by simp [zeros]) hused ?_ hfree
  intro a _ ha
  simp [zeros]

end tree

example : holds (do
    let rm ← RM.new (α := Rat) Policy.repaired 3 2 false
    let σ ← rm.regretMatching 2
    pure (decide (σ = [1/2, 0, 1/2]))) = true := by decide +kernel

/-- the repository's own test vector (tests/test_regret.py, `test_apply_regret`): regret of the root and
    average strategy of the root after one iteration -/
example : holds (do
    let rm ← RM.new (α := Rat) Policy.repaired 3 2 false
    let rm ← rm.iterate [1, 0, 0] [[3, 5], [5, 6], [3, 6]]
    let avg ← rm.averageStrategy []
    pure (decide (rm.regret.head? = some [1/6, 1/6, -1/3] ∧ avg = [0, 0, 0, 1/3, 0, 1/3, 1/3, 0]))) = true := by
  decide +kernel

/-- the theorems are about the functions the driver runs (core `Rat` instances) -/
example : ∃ σ, regretMatchingRow (α := Rat) 3 [1/6, 1/6, -1/3] [2] = .ok σ ∧ σ.length = 3 ∧
    (∀ x ∈ σ, 0 ≤ x) ∧ σ.sum = 1 ∧ ∀ i ∈ [2], σ[i]? = some 0 :=
  strategy_distribution (α := ℚ) rfl (by decide) (by decide +kernel) ⟨0, by decide, by decide⟩

example : regretMatchingRow (α := Rat) 3 [1/6, 1/6, -1/3] [2] = .ok [1/2, 1/2, 0] := by decide +kernel
example : regretMatchingRow (α := Rat) 3 [0, -1, -1/3] [1] = .ok [1/2, 0, 1/2] := by decide +kernel
/-- without an unused coalition the model reports the 0/0 instead of returning zeros -/
example : regretMatchingRow (α := Rat) 3 [0, 0, 0] [0, 1, 2] = .error .nan := by decide +kernel

/-! ## 4. save / load -/

section saveload
variable {α : Type} [Field α] [LinearOrder α] [IsStrictOrderedRing α]

/-- states reachable from the constructor by iterations -/
inductive Reachable (p : Policy) : RM α → Prop
  | new {n limit plus rm} : p.Stable (numCoalitions n) limit → RM.new (α := α) p n limit plus = .ok rm →
      Reachable p rm
  | iter {rm rm' t u} : Reachable p rm → rm.iterate t u = .ok rm' → Reachable p rm'

/-- **save / load**: for every reachable state, `load (save s) = s` — the loaded minimiser is the same
    value, so every later call returns the same on both.  (Both `Policy.current` and `Policy.repaired`
    are `Stable` for every `m`, `limit`.) -/
theorem load_save {p : Policy} {rm : RM α} (h : Reachable p rm) : RM.load p rm.save = .ok rm := by
  apply Regret.load_save
  induction h with
  | new hs h => exact new_built hs h
  | iter _ h ih => exact iterate_built ih h

theorem load_save_current {rm : RM α} {n limit plus} (h : RM.new (α := α) Policy.current n limit plus = .ok rm) :
    RM.load Policy.current rm.save = .ok rm :=
  load_save (.new (Policy.current_stable _ _) h)

theorem load_save_repaired {rm : RM α} {n limit plus} (h : RM.new (α := α) Policy.repaired n limit plus = .ok rm) :
    RM.load Policy.repaired rm.save = .ok rm :=
  load_save (.new (Policy.repaired_stable _ _) h)

end saveload

example : holds (do
    let rm ← RM.new (α := Rat) Policy.repaired 3 2 true
    let rm ← rm.iterate [1, 0, 0] [[3, 5], [5, 6], [3, 6]]
    let rm' ← RM.load Policy.repaired rm.save
    pure (decide (rm'.regret = rm.regret ∧ rm'.strategy = rm.strategy ∧ rm'.iteration = 1))) = true := by
  decide +kernel

end ICG.C14
