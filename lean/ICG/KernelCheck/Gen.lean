/-
  ICG.KernelCheck.Gen — kernel cross-check glue for protocol domain `gen` (ICG/Driver/Gen.lean; model
  ICG/Model/Generators.lean), stateless.  One wrapper per protocol operation, making the SAME model call as
  `ICG.Driver.Gen.handle` (`factory`, `predictibleOwner`, `cheerPick`, `factoryCheerleader`, `factoryCheerleaderKey`,
  `factoryCheerleaderNext`, `graphGame`, `cycle` / `cycleMatrix`, `additive`, `xos`, `xs`, `unitDemandSingles` /
  `xsUnitDemand`, `applyOrFn`, `oxsOfSingles`, `kBudget`, `coverage`) and returning the answer as comparable literals.
  `vecOf`, `matOf`, `chunks` are the driver's own helpers, repeated verbatim.
  Imports the model only: core Lean, no Mathlib.
-/
import ICG.KernelCheck.Basic
import ICG.Model.Generators
namespace ICG.KC
open ICG ICG.Norm ICG.Gen

def genVecOf (l : List Rat) : Nat → Rat :=
  let a := l.toArray
  fun i => if h : i < a.size then a[i] else 0

def genMatOf (n : Nat) (l : List Rat) : Nat → Nat → Rat :=
  let a := l.toArray
  fun r c => if h : r * n + c < a.size then a[r * n + c] else 0

def genChunks {β} (n : Nat) : Nat → List β → List (List β)
  | 0, _ => []
  | k + 1, l => l.take n :: genChunks n k (l.drop n)

/-- `V=` for a rational-valued game -/
def valsQ (n : Nat) (v : Nat → Rat) : List Q := qsOf ((allCoalitions n).map v)
/-- `V=` for an integer-valued game (`showIntVals`: every value printed through `Rat`) -/
def valsI (n : Nat) (v : Nat → Int) : List Q := qsOf ((allCoalitions n).map (fun c => (v c : Rat)))

def ansQ (n : Nat) (r : Except Err (Nat → Rat)) : Except Err (List Q) := r.map (valsQ n)
def ansI (n : Nat) (r : Except Err (Nat → Int)) : Except Err (List Q) := r.map (valsI n)

/-- `gen factory <n> <owner> <weights> <id|one|sq>`: `fn` = 0 | 1 | 2 -/
def genFactory (n owner : Nat) (ws : List Rat) (fn : Nat) : List Q :=
  let w := genVecOf ws
  match fn with
  | 0 => valsQ n (factory owner w fnId)
  | 1 => valsQ n (factory owner w fnOne)
  | _ => valsQ n (factory owner w fnSq)

def genPredOwner (last n : Nat) : Nat := predictibleOwner last n
def genCheerPick (owner : Nat) (draws : List Nat) : Option Nat := cheerPick owner draws
def genCheer (n owner cheer : Nat) : List Q := valsI n (factoryCheerleader owner cheer)
def genCheerKey (n owner cheer : Nat) : Except Err (List Q) := ansI n (factoryCheerleaderKey owner cheer)
def genCheerNext (n owner : Nat) : Except Err (List Q) := ansI n (factoryCheerleaderNext n owner)
def genGraph (n : Nat) (mat : List Rat) : List Q := valsQ n (graphGame n (genMatOf n mat))

/-- `gen cycle <perm>` → `M=<polished matrix> V=<values>` -/
def genCycle (perm : List Nat) : List Q × List Q :=
  let n := perm.length
  let m : Nat → Nat → Rat := (GraphGame.ofMatrix n (cycleMatrix perm)).m
  (qsOf ((List.range n).flatMap (fun r => (List.range n).map (fun c => m r c))), valsQ n (cycle perm))

def genAdditive (n : Nat) (ws : List Rat) : List Q := valsQ n (additive (genVecOf ws))

def genXos (n k : Nat) (ws : List Rat) (nrm nadd : Bool) : Except Err (List Q) :=
  ansQ n (xos n ((genChunks n k ws).map genVecOf) nrm nadd)

def genXs (n : Nat) (ss : List Rat) : List Q := valsQ n (xs (genVecOf ss))

/-- `gen xsud <n> <players> <values>` → `S=<singletons> V=…` -/
def genXsud (n : Nat) (ps : List Nat) (xv : List Rat) : List Q × List Q :=
  let sg : Nat → Rat := unitDemandSingles (ps.zip xv)
  (qsOf ((List.range n).map sg), valsQ n (xsUnitDemand (ps.zip xv)))

def genApplyOr (n : Nat) (a b : List Rat) : List Q :=
  let o := applyOrFn (genVecOf a) (genVecOf b) n
  valsQ n o.f

def genOxs (n k : Nat) (ss : List Rat) (nrm : Bool) : Except Err (List Q) :=
  ansQ n (oxsOfSingles n ((genChunks n k ss).map genVecOf) nrm)

def genKBudget (n k : Nat) : List Q := valsI n (kBudget k)
def genCoverage (n mult : Nat) (idx : List Nat) : Except Err (List Q) := ansI n (coverage n mult idx)

end ICG.KC
