/-
  ICG.KernelCheck.Store — kernel cross-check glue for protocol domain `store` (ICG/Driver/Store.lean; model
  ICG/Model/Store.lean).

  C19: a statement is one *segment* of one store's history — from `store reset` (the empty store) or from the store a
  previous `store dump` printed, through every `save` / `lookup` / `names` up to and including the next `store dump` —
  asserting every answer line in between.  `SOp.step` makes the SAME model calls as `ICG.Driver.Store.handle`
  (`save`, `has`, `lookup`, `names`); entries are the model's `Entry` (cells, keys and values are opaque string tokens;
  the kernel decides string equality by itself — long tokens are written `KC.strC …`, see KernelCheck/Str.lean).

  C20: `crash` is `ICG.Driver.Store.crashLine` with the answer as a comparable value (`atomicB`, and the class of the
  target's content after the first k operations, k = 0 … number of operations).
  Imports the model only: core Lean, no Mathlib.
-/
import ICG.KernelCheck.Basic
import ICG.KernelCheck.Str
import ICG.Model.Store
namespace ICG.KC
open ICG ICG.Store

/-! ### C19: the store -/

/-- one protocol line of domain `store` addressed to one store id -/
inductive SOp where
  | save (name : String) (e : Entry)
  | lookup (name : String)
  | names
  | dump

/-- one answer line -/
inductive SAns where
  | saved (kept : Bool)                       -- `kept` | `added`
  | entry (o : Option Entry)                  -- `<entry>` | `none`
  | names (l : List String)
  | dump (l : List (String × Entry))
  deriving DecidableEq

/-- one line: the same model calls as `ICG.Driver.Store.handle` -/
def SOp.step (t : Store Entry) : SOp → Store Entry × SAns
  | .save name e => (Store.save t name e, .saved (Store.has t name))
  | .lookup name => (t, .entry (Store.lookup t name))
  | .names => (t, .names (Store.names t))
  | .dump => (t, .dump t)

def storeOps (t : Store Entry) : List SOp → List SAns
  | [] => []
  | op :: rest => let (t', a) := op.step t; a :: storeOps t' rest

/-- a history starting from the store `start` (`[]` after `store reset`) -/
def storeRun (start : List (String × Entry)) (ops : List SOp) : List SAns := storeOps start ops

/-! ### C20: crashes -/

/-- `Driver.Store.parseInit?`: the files that exist before the save -/
def fsOf (kvs : List (String × String)) : Fs := fun q => (kvs.find? (·.1 == q)).map (·.2)

/-- `Driver.Store.classOf` -/
inductive Cls where
  | old | new | absent | lit (content : String)
  deriving DecidableEq

def classOf (old new cur : Option String) : Cls :=
  if cur = old then .old
  else if cur = new then .new
  else match cur with
    | none => .absent
    | some c => .lit c

/-- `Driver.Store.crashLine`: `atomic=<0|1> <class_0> … <class_N>` -/
def crash (target : String) (init : List (String × String)) (ops : List FsOp) : Bool × List Cls :=
  let fs := fsOf init
  let old := fs target
  let new := run ops fs target
  (atomicB target ops, (List.range (ops.length + 1)).map (fun k => classOf old new (crashAfter k ops fs target)))

end ICG.KC
