/-
  ICG.KernelCheck.Rgt — kernel cross-check glue for protocol domain `rgt` (ICG/Driver/Rgt.lean; model
  ICG/Model/Regret.lean at `Rat`).

  Stateless lines (`cup`, `metaids`, `pidmap`) are single statements.  For the named regret minimisers a statement is
  one *segment* of one object's history.  It starts
  * from nothing (`RStart.fresh`; the first line is then the object's `rgt new`), or
  * from `RStart.loaded p n limit plus it regret strategy` = `RM.load p ⟨it, n, limit, plus, regret, strategy⟩`, the
    model's own re-construction (`RM.new` on the constructor arguments, then the three mutable fields): `p n limit plus`
    are the arguments of the `rgt new` (or of the `rgt saveload`) that made the object, `regret` / `strategy` what
    `rgt regret` / `rgt cumstrat` printed, `it` the `it=` of an `rgt info` answer plus the `rgt iter` lines answered
    `ok` since.  This is exactly how the driver itself builds an object in `rgt saveload`; for an object made by
    `rgt new` it is the same value because `RM.iterate` only changes these three fields.
  `ROp.run` makes the SAME model calls as `ICG.Driver.Rgt.handle`.
  Imports the model only: core Lean, no Mathlib.
-/
import ICG.KernelCheck.Basic
import ICG.Model.Regret
namespace ICG.KC
open ICG ICG.Regret

inductive RPol where
  | current
  | explicit (tableLen storedLimit : Nat)

def RPol.policy : RPol → Policy
  | .current => Policy.current
  | .explicit a b => Policy.explicit a b

inductive ROp where
  | new (p : RPol) (n limit : Nat) (plus : Bool)
  | info | ranks | table
  | metaid (cs : List Nat)
  | strategy (mid : Nat)
  | strategyc (cs : List Nat)
  | avg (cs : List Nat)
  | iter (terminal : List Rat) (used : List (List Nat))
  | regret | cumstrat
  | saveload (p : RPol)                      -- `rgt saveload x y …` seen from `x`: does `load (save x)` succeed?

inductive RAns where
  | ok | err (e : Err) | badop
  | info (n m limit : Nat) (plus : Bool) (V R tlen it : Nat)
  | ranks (ids : List Nat) (inv : List (Option Nat))
  | nats (l : List Nat) | nat (k : Nat)
  | rats (l : List Q)
  | rows (l : List (List Q))
  deriving DecidableEq

/-- `Driver.Rgt.showRows` prints `-` for no rows and for one empty row alike -/
def rowsQ (l : List (List Rat)) : RAns :=
  let q := l.map qsOf
  .rows (if q = [[]] then [] else q)

def rdR {β} (f : β → RAns) : Except Err β → RAns
  | .ok x => f x
  | .error e => .err e

def withRM (s : Option (RM Rat)) (f : RM Rat → RAns) : Option (RM Rat) × RAns :=
  match s with
  | some rm => (s, f rm)
  | none => (s, .badop)

/-- one line: the same model calls as `ICG.Driver.Rgt.handle` -/
def ROp.run (s : Option (RM Rat)) : ROp → Option (RM Rat) × RAns
  | .new p n limit plus =>
    match RM.new (α := Rat) p.policy n limit plus with
    | .ok rm => (some rm, .ok)
    | .error e => (s, .err e)
  | .info => withRM s fun rm => .info rm.n rm.m rm.limit rm.plus rm.V rm.R rm.idToRank.size rm.iteration
  | .ranks => withRM s fun rm => .ranks rm.rankToId (rm.rankToId.map (fun id => rm.idToRank[id]?))
  | .table => withRM s fun rm => .nats rm.idToRank.toList
  | .metaid cs => withRM s fun rm => rdR .nat (rm.getMetacoalitionId cs)
  | .strategy mid => withRM s fun rm => rdR (fun l => .rats (qsOf l)) (rm.regretMatching mid)
  | .strategyc cs => withRM s fun rm => rdR (fun l => .rats (qsOf l)) (rm.regretMatchingOf cs)
  | .avg cs => withRM s fun rm => rdR (fun l => .rats (qsOf l)) (rm.averageStrategy cs)
  | .iter term used =>
    match s with
    | some rm =>
      match rm.iterate term used with
      | .ok rm' => (some rm', .ok)
      | .error e => (s, .err e)
    | none => (s, .badop)
  | .regret => withRM s fun rm => rowsQ rm.regret
  | .cumstrat => withRM s fun rm => rowsQ rm.strategy
  | .saveload p => withRM s fun rm =>
    match RM.load p.policy rm.save with
    | .ok _ => .ok
    | .error e => .err e

def rgtOps (s : Option (RM Rat)) : List ROp → List RAns
  | [] => []
  | op :: rest => let (s', a) := op.run s; a :: rgtOps s' rest

inductive RStart where
  | fresh
  | loaded (p : RPol) (n limit : Nat) (plus : Bool) (it : Nat) (regret strategy : List (List Rat))

def RStart.state : RStart → Option (RM Rat)
  | .fresh => none
  | .loaded p n limit plus it regret strategy =>
    match RM.load p.policy { iteration := it, n := n, limit := limit, plus := plus, regret := regret, strategy := strategy } with
    | .ok rm => some rm
    | .error _ => none

def rgtRun (s : RStart) (ops : List ROp) : List RAns := rgtOps s.state ops

/-! ### the stateless lines -/

def rgtCup (m k : Nat) : Nat := coalitionsUpTo m k
def rgtMetaIds (n limit : Nat) : Except Err (List Nat) := metaIdsArr (numCoalitions n) limit
def rgtPidMap (n : Nat) : List Int := coalitionPlayerIdMap n

end ICG.KC
