/-
  ICG.KernelCheck.Basic — glue for the kernel cross-check of the compiled driver (DESIGN section 4).

  `harness/kernelcheck.py` turns protocol lines that the COMPILED driver answered into closed statements

      theorem kc_i : <model function> <literal input> = <literal observed output> := by decide +kernel

  (written to `ICG/KernelCheck/Generated.lean`).  `decide +kernel` hands `Decidable.decide p = true` to the
  Lean kernel, which evaluates the model definitions themselves — the definitions the theorems of
  `ICG/Props` are about — by definitional unfolding; no native code and no interpreter is involved.

  This file only provides
  * literal → model input:   `getR`, `getB`, `tableOf`
  * model output → literal:  `qOf` (a rational as the pair numerator / denominator, so that an
                             un-normalised fraction printed by the driver would be noticed), `dumpT`, …
  * a closed description of the `tab` protocol operations (`Op`), their answers (`Ans`), and `tabRun`, which
    applies a short history to a table by calling the SAME model functions as `ICG/Driver/Tab.lean`
    (`Table.setValue`, `Table.reveal`, …, `Computer.run`) with the same treatment of raising calls;
  * one wrapper per `bits` / `shp` protocol operation whose answer is not already a comparable literal.

  Imports the model (and the spec) only: core Lean, no Mathlib.
-/
import ICG.Model.Bounds
import ICG.Model.Shapley
import ICG.Model.Predicates
import ICG.Spec.Bounds
namespace ICG.KC
open ICG

deriving instance DecidableEq for Except

/-! ### literals -/

/-- a rational as text: numerator, denominator (what `Proto.showRat` prints) -/
abbrev Q := Int × Nat

def qOf (r : Rat) : Q := (r.num, r.den)
def qsOf (l : List Rat) : List Q := l.map qOf

/-- a list literal as a function on all of `Nat`: rows outside the list read the default (`0` / `false`),
    which is what a table that came out of `Table.init` and the public operations holds there -/
def getR (l : List Rat) (i : Nat) : Rat := l.getD i 0
def getB (l : List Bool) (i : Nat) : Bool := l.getD i false

/-- the table with `2^n` rows given by three lists (flag, lower, upper) -/
def tableOf (n : Nat) (known : List Bool) (lo hi : List Rat) : Table Rat :=
  { n := n, known := getB known, lo := getR lo, hi := getR hi }

/-- the three columns, rows `0 .. 2^n − 1` — `tab dump` -/
def dumpT (t : Table Rat) : List Bool × List Q × List Q :=
  (t.areValuesKnown, qsOf t.getLowerBounds, qsOf t.getUpperBounds)

/-- `Computer.run` on a table, then dumped (`tab compute` followed by `tab dump`) -/
def runComputer (c : Computer) (t : Table Rat) : Except Err (List Bool × List Q × List Q) :=
  (c.run t).map dumpT

/-! ### the `tab` domain: operations, answers, histories -/

/-- where a history starts: `tab new x n`, or the table a previous `tab dump` showed -/
inductive Start where
  | init (n : Nat)
  | from (n : Nat) (known : List Bool) (lo hi : List Rat)

def Start.table : Start → Table Rat
  | .init n => Table.init n
  | .from n k l u => tableOf n k l u

/-- one protocol line of domain `tab` acting on (or reading) a single object -/
inductive Op where
  | set (c : Nat) (v : Rat) | unset (c : Nat) | reveal (c : Nat) (v : Rat) | unreveal (c : Nat)
  | setlo (c : Nat) (v : Rat) | sethi (c : Nat) (v : Rat)
  | setvalues (cs : Option (List Nat)) (vals : List Rat)
  | setknown (cs : Option (List Nat)) (vals : List Rat)
  | bounds (upper : Bool) (cs : Option (List Nat)) (vals : List Rat)
  | neg                                  -- `tab neg x x'` seen from `x'`
  | compute (c : Computer)
  | spec (c : Computer)
  | dump | known (c : Nat) | getvalue (c : Nat) | getvalues (cs : Option (List Nat))
  | getknown (c : Nat) | getknowns | full

/-- one answer line -/
inductive Ans where
  | ok | err (e : Err) | bit (b : Bool)
  | rat (r : Q) | rats (l : List Q) | orat (o : Option Q) | orats (l : List (Option Q))
  | dump (known : List Bool) (lo hi : List Q)
  | spec (lo hi : List Q)
  deriving DecidableEq

/-- `Driver.Tab.upd`: a raising call leaves the object as it was -/
def upd (t : Table Rat) (r : Except Err (Table Rat)) : Table Rat × Ans :=
  match r with
  | .ok t' => (t', .ok)
  | .error e => (t, .err e)

def rd {β} (t : Table Rat) (f : β → Ans) (r : Except Err β) : Table Rat × Ans :=
  match r with
  | .ok x => (t, f x)
  | .error e => (t, .err e)

/-- one line: the same model calls as `ICG.Driver.Tab.handle` -/
def Op.step (t : Table Rat) : Op → Table Rat × Ans
  | .set c v => upd t (t.setValue v c)
  | .unset c => upd t (t.unsetValue c)
  | .reveal c v => upd t (t.reveal v c)
  | .unreveal c => upd t (t.unreveal c)
  | .setlo c v => upd t (t.setLowerBound v c)
  | .sethi c v => upd t (t.setUpperBound v c)
  | .setvalues cs vals => upd t (t.setValues vals cs)
  | .setknown cs vals =>
    match t.setKnownValues vals cs with
    | .ok t' => (t', .ok)
    | .error (e, t0) => (t0, .err e)
  | .bounds upper cs vals => upd t (t.setBounds upper vals cs)
  | .neg => (t.neg, .ok)
  | .compute c => upd t (c.run t)
  | .spec c =>
    let ids := List.range t.rows
    let (lo, up) : (Nat → Rat) × (Nat → Rat) := match c with
      | .sam r => (samB t.n t.known t.lo r, samUp t.n t.known t.lo r)
      | _ => (loSpec t.known t.lo, upSpec t.n t.known t.lo)
    (t, .spec (qsOf (ids.map lo)) (qsOf (ids.map up)))
  | .dump => (t, .dump t.areValuesKnown (qsOf t.getLowerBounds) (qsOf t.getUpperBounds))
  | .known c => rd t .bit (t.isValueKnown c)
  | .getvalue c => rd t (fun v => .rat (qOf v)) (t.getValue c)
  | .getvalues cs => rd t (fun l => .rats (qsOf l)) (t.getValues cs)
  | .getknown c => rd t (fun o => .orat (o.map qOf)) (t.getKnownValue c)
  | .getknowns => (t, .orats (t.getKnownValues.map (·.map qOf)))
  | .full => (t, .bit t.full)

/-- a history, answers in order -/
def runOps (t : Table Rat) : List Op → List Ans
  | [] => []
  | op :: rest => let (t', a) := op.step t; a :: runOps t' rest

def tabRun (s : Start) (ops : List Op) : List Ans := runOps s.table ops

/-! ### the `bits` domain (answers that need a wrapper) -/

def structRow (n c : Nat) : List Int := (allCoalitions n).map (coalStructure n c)

def issa (n : Nat) (rtol atol : Rat) (vals : List Rat) : Except Err Bool :=
  Pred.isSuperadditive n (getR vals) rtol atol
def ismono (n : Nat) (vals : List Rat) : Except Err Bool := Pred.isMonotoneDecreasing n (getR vals)
def issam (n : Nat) (rtol atol : Rat) (vals : List Rat) : Except Err Bool :=
  Pred.isSam n (getR vals) rtol atol
def supermod (n : Nat) (tol : Rat) (vals : List Rat) : Option (Nat × Nat × Nat) :=
  Pred.checkSupermodularity n (getR vals) tol

/-! ### the `shp` domain -/

def eQ (r : Except Err Rat) : Except Err Q := r.map qOf
def eQs (r : Except Err (List Rat)) : Except Err (List Q) := r.map qsOf

def shapley (n : Nat) (vals : List Rat) : Except Err (List Q) := eQs (AtRat.shapley n (getR vals))
def shapley1 (n i : Nat) (vals : List Rat) : Except Err Q := eQ (AtRat.shapleyForPlayer n (getR vals) i)
def tshapley (n : Nat) (known : List Bool) (vals : List Rat) : Except Err (List Q) :=
  eQs (AtRat.tableShapley (tableOf n known vals vals))
def tshapley1 (n i : Nat) (known : List Bool) (vals : List Rat) : Except Err Q :=
  eQ (AtRat.tableShapleyForPlayer (tableOf n known vals vals) i)
def maxgain (n i : Nat) (lo hi : List Rat) : List Q := qsOf (AtRat.maxGain n i (getR lo) (getR hi))
def expl (n : Nat) (known : List Bool) (lo hi : List Rat) : Except Err Q :=
  eQ (AtRat.exploitability (tableOf n known lo hi))
def norms (n : Nat) (lo hi : List Rat) : Q × Q × Except Err Q :=
  (qOf (AtRat.l1 n (getR lo) (getR hi)), qOf (AtRat.l2sq n (getR lo) (getR hi)),
   eQ (AtRat.linf n (getR lo) (getR hi)))

end ICG.KC
