/-
  ICG.KernelCheck.Codec — kernel cross-check glue for protocol domain `codec` (ICG/Driver/Codec.lean; model
  ICG/Model/Codec.lean at `φ := String`), stateless.

  `Json φ` and `PyVal φ` are nested inductive types without a derived `DecidableEq`.  The answers are therefore
  compared the way the driver prints them: as the *token sequence* of the tree (`jsonToks` / `pyToks`: one token per
  protocol word of `Driver.Codec.jsonWords` / `pyWords`, same order, same brackets) — a prefix code of the tree — with
  the payload of a token kept as the value it is (`Int`, `FCell String`, `String`, `PyKey`) instead of its hex text.
  Arrays (`Nd String`) are compared as (dtype, shape, cells), an `Output` as (data, actions, [(attribute, tokens)]).

  Every wrapper makes the SAME model call as `ICG.Driver.Codec.handle`: `entryTree`, `saveLoad ofIntS`,
  `fromJson ofIntS ∘ Json.reload`, `getOutputs ofIntS`, `npArrayFloat ofIntS`, `npArrayInfer ofIntS`, `Nd.tolist`,
  `Json.reload`, `PyVal.toJson`, `PyVal.stringify`; `ofIntS` is the driver's instantiation of the parameter `ofInt`
  (`roundInt`, printed with `toString`), repeated verbatim.
  Imports the model only: core Lean, no Mathlib.
-/
import ICG.KernelCheck.Basic
import ICG.KernelCheck.Str
import ICG.Model.Codec
namespace ICG.KC
open ICG ICG.Codec

abbrev J := Json String
abbrev P := PyVal String

/-- `Driver.Codec.ofIntS` -/
def ofIntS (i : Int) : Except CErr (FCell String) :=
  match roundInt i with
  | some r => .ok (.fin (toString r))
  | none => .error .overflow

/-- one protocol word of a JSON / Python value -/
inductive Tok where
  | null | bool (b : Bool) | int (i : Int) | float (c : FCell String) | str (s : String)
  | key (s : String)                      -- `k<hex>`: a JSON object key
  | pkey (k : PyKey)                      -- `ks… ki… kt kf kN kF… kO`: a Python dict key
  | path (s : String) | other (repr : String)
  | lb | rb | lc | rc | lp | rp           -- [ ] { } ( )
  deriving DecidableEq

mutual
def jsonToks : J → List Tok
  | .null => [.null] | .bool b => [.bool b] | .int i => [.int i] | .float c => [.float c] | .str s => [.str s]
  | .arr l => .lb :: (jsonSeqToks l ++ [.rb])
  | .obj kvs => .lc :: (jsonObjToks kvs ++ [.rc])
def jsonSeqToks : List J → List Tok
  | [] => []
  | x :: xs => jsonToks x ++ jsonSeqToks xs
def jsonObjToks : List (String × J) → List Tok
  | [] => []
  | (k, v) :: kvs => .key k :: (jsonToks v ++ jsonObjToks kvs)
end

mutual
def pyToks : P → List Tok
  | .none => [.null] | .bool b => [.bool b] | .int i => [.int i] | .float c => [.float c] | .str s => [.str s]
  | .list l => .lb :: (pySeqToks l ++ [.rb])
  | .tuple l => .lp :: (pySeqToks l ++ [.rp])
  | .dict kvs => .lc :: (pyDictToks kvs ++ [.rc])
  | .path s => [.path s]
  | .other r => [.other r]
def pySeqToks : List P → List Tok
  | [] => []
  | x :: xs => pyToks x ++ pySeqToks xs
def pyDictToks : List (PyKey × P) → List Tok
  | [] => []
  | (k, v) :: kvs => .pkey k :: (pyToks v ++ pyDictToks kvs)
end

/-- an array as comparable data (`Nd String` itself derives no `DecidableEq`) -/
structure NdT where
  dtype : DType
  shape : List Nat
  cells : List (Scalar String)
  deriving DecidableEq
def ndT (a : Nd String) : NdT := ⟨a.dtype, a.shape, a.cells⟩

/-- `Driver.Codec.showOutput`: `data=… actions=… args= A… <pyval> …` -/
structure OutT where
  data : NdT
  actions : NdT
  args : List (String × List Tok)
  deriving DecidableEq
def outT (o : Output String) : OutT := ⟨ndT o.data, ndT o.actions, o.args.map (fun p => (p.1, pyToks p.2))⟩

/-! ### one wrapper per operation -/

def codecTree (d a : Nd String) (args : List (String × P)) : Except CErr (List Tok) :=
  (entryTree ⟨d, a, args⟩).map jsonToks

def codecSaveLoad (d a : Nd String) (args : List (String × P)) : Except CErr OutT :=
  (saveLoad ofIntS ⟨d, a, args⟩).map outT

def codecLoad (j : J) : Except CErr OutT := (fromJson ofIntS j.reload).map outT

/-- `codec outputs <json>`; `none` = `bad-op` (the loaded value is not an object) -/
def codecOutputs (j : J) : Option (Except CErr (List (String × OutT))) :=
  match j.reload with
  | .obj kvs => some ((getOutputs ofIntS kvs).map (·.map (fun p => (p.1, outT p.2))))
  | _ => none

def codecNpFloat (j : J) : Except CErr NdT := (npArrayFloat ofIntS j).map ndT
def codecNpInfer (j : J) : Except CErr NdT := (npArrayInfer ofIntS j).map ndT
def codecTolist (a : Nd String) : Except CErr (List Tok) := a.tolist.map jsonToks
def codecReload (j : J) : List Tok := jsonToks j.reload
def codecDumps (v : P) : Except CErr (List Tok) := v.toJson.map jsonToks
def codecStringify (v : P) : Except CErr (List Tok) := v.stringify.map pyToks

end ICG.KC
