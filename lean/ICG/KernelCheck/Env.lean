/-
  ICG.KernelCheck.Env — kernel cross-check glue for protocol domain `env` (ICG/Driver/Env.lean; model
  ICG/Model/Env.lean: the reveal environment, the solvers, the size-aggregated environment).

  The driver keeps, per name, an environment slot (computer kind, gap kind, `Env Rat`) and an oracle table (bounds and
  gap per knowledge bit string).  A statement is one *segment* of the history of ONE name: it starts from nothing
  (`EStart.fresh`: the name was never used, or was dropped) or from a state the driver has shown completely
  (`EStart.shown`: the oracle entries sent so far, the arguments of `env new`, the `ik=` / `ex=` / `n=` of an `env info`
  answer, the hidden game of the last `new` / `reset` / `linreset`, and the `steps=` / `K=` / `L=` / `U=` of an
  `env snap` answer), runs every protocol line up to and including the next `env snap`, and asserts every answer.

  `EOp.run` makes the SAME model calls as `ICG.Driver.Env.handle` (`Env.mkEnv`, `Env.reset`, `Env.step`,
  `Env.unstep`, `Env.greedy`, `Env.largest`, `Env.randomOk`, `Env.linReset`, `Env.linStep`, the getters), with the
  driver's instantiation of the two parameters (`envComputeOf`, `envGapOf`: the model's own `Computer.run` / the l1 gap, or the
  oracle table) and the driver's treatment of raising calls (`updE`: the environment left behind by the failed call is
  kept; a failed `new` removes the environment).
  Two representation changes, both extensionally nothing: oracle keys are `List Bool` compared with
  `Table.areValuesKnown` (the driver compares the strings `showBools` makes of them), oracle columns are lists read with
  `l[c]?` (the driver: arrays, same fall-back to the table's own row); and the re-tabulation `Table.compactT`
  (`compactT_eq : t.compactT = t`) the driver applies when it stores an environment is left out.
  Imports the model only: core Lean, no Mathlib.
-/
import ICG.KernelCheck.Basic
import ICG.Model.Env
namespace ICG.KC
open ICG

inductive EComp where
  | model (c : Computer)
  | ext

inductive EGap where
  | l1 | ext

/-- one oracle entry: knowledge bits ↦ bounds (or the error the real computer raised), gap (or error) -/
structure OEntry where
  key : List Bool
  bounds : Except Err (List Rat × List Rat)
  gap : Except Err Rat

structure ESlot where
  comp : EComp
  gapk : EGap
  env : Env Rat

/-- everything the driver keeps under one name -/
structure EState where
  slot : Option ESlot
  oracle : List OEntry

def oracleCompute (o : List OEntry) (t : Table Rat) : Except Err (Table Rat) :=
  match o.find? (·.key == t.areValuesKnown) with
  | none => .error .nan
  | some en =>
    match en.bounds with
    | .error err => .error err
    | .ok (L, U) =>
      .ok { t with lo := fun c => match L[c]? with | some x => x | none => t.lo c,
                   hi := fun c => match U[c]? with | some x => x | none => t.hi c }

def oracleGap (o : List OEntry) (t : Table Rat) : Except Err Rat :=
  match o.find? (·.key == t.areValuesKnown) with
  | none => .error .nan
  | some en => en.gap

def l1Gap (t : Table Rat) : Except Err Rat :=
  .ok (listSum ((List.range t.rows).map (fun c => t.hi c - t.lo c)))

def envComputeOf (o : List OEntry) : EComp → Table Rat → Except Err (Table Rat)
  | .model c => fun t => c.run t
  | .ext => oracleCompute o

def envGapOf (o : List OEntry) : EGap → Table Rat → Except Err Rat
  | .l1 => l1Gap
  | .ext => oracleGap o

/-! ### protocol lines and answers -/

inductive EOp where
  | oracle (key : List Bool) (bounds : Except Err (List Rat × List Rat)) (gap : Except Err Rat)
  | oracleClear
  | new (n : Nat) (comp : EComp) (gapk : EGap) (budget : Option Nat) (initial : List Nat) (full norm : List Rat)
  | info
  | reset (full norm : List Rat)
  | step (a : Int) | unstep (a : Int)
  | mask | state | reward | done | steps | dump | snap
  | solve (which : Nat)                 -- 0 greedy, 1 greedy_worst, 2 largest
  | random (a : Nat)
  | linsizes | linmask | linstate | lincands (k : Nat)
  | linreset (full norm : List Rat)
  | linstep (k : Int) (chosen : Nat)
  | drop

inductive EAns where
  | ok | err (e : Err) | badop | illegal
  | info (ik ex : List Nat) (n : Nat) (steps : Int) (budget : Option Nat)
  | obs (l : List Q)
  | out (obs : List Q) (r : Q) (done : Bool) (c : Nat)
  | bools (l : List Bool) | rats (l : List Q) | rat (q : Q) | bit (b : Bool) | int (i : Int) | nats (l : List Nat)
  | act (a : Nat)
  | dump (known : List Bool) (lo hi : List Q)
  | snap (mask : List Bool) (state : List Q) (r : Except Err Q) (done : Bool) (steps : Int)
         (known : List Bool) (lo hi : List Q)
  deriving DecidableEq

def outQ (o : StepOut Rat) : EAns := .out (qsOf o.obs) (qOf o.reward) o.done o.chosen

/-- `Driver.Env.updE`: a new environment, or the error together with the environment the failed call left behind -/
def updE {β} (s : EState) (sl : ESlot) (r : Except (Err × Env Rat) (Env Rat × β)) (f : β → EAns) : EState × EAns :=
  match r with
  | .ok (e', b) => ({ s with slot := some { sl with env := e' } }, f b)
  | .error (err, e') => ({ s with slot := some { sl with env := e' } }, .err err)

def withSlot (s : EState) (f : ESlot → EState × EAns) : EState × EAns :=
  match s.slot with
  | some sl => f sl
  | none => (s, .badop)

def rdE {β} (f : β → EAns) : Except Err β → EAns
  | .ok x => f x
  | .error e => .err e

/-- one line: the same model calls as `ICG.Driver.Env.handle` -/
def EOp.run (s : EState) : EOp → EState × EAns
  | .oracle key b g =>
    ({ s with oracle := { key := key, bounds := b, gap := g } :: s.oracle.filter (·.key != key) }, .ok)
  | .oracleClear => ({ s with oracle := [] }, .ok)
  | .new n comp gapk budget initial full norm =>
    match Env.mkEnv (envComputeOf s.oracle comp) n initial budget (getR full) (getR norm) with
    | .ok e => ({ s with slot := some { comp := comp, gapk := gapk, env := e } }, .ok)
    | .error err => ({ s with slot := none }, .err err)
  | .info => withSlot s fun sl =>
    let e := sl.env
    (s, .info (sortedIds e.initiallyKnown) e.explorable e.table.n e.steps e.budget)
  | .reset full norm => withSlot s fun sl =>
    updE s sl (Env.reset (envComputeOf s.oracle sl.comp) sl.env (getR full) (getR norm)) (fun obs => .obs (qsOf obs))
  | .step a => withSlot s fun sl =>
    updE s sl (Env.step (envComputeOf s.oracle sl.comp) (envGapOf s.oracle sl.gapk) sl.env a) outQ
  | .unstep a => withSlot s fun sl =>
    updE s sl (Env.unstep (envComputeOf s.oracle sl.comp) (envGapOf s.oracle sl.gapk) sl.env a) outQ
  | .mask => withSlot s fun sl => (s, .bools sl.env.actionMasks)
  | .state => withSlot s fun sl => (s, .rats (qsOf sl.env.state))
  | .reward => withSlot s fun sl => (s, rdE (fun r => .rat (qOf r)) (sl.env.reward (envGapOf s.oracle sl.gapk)))
  | .done => withSlot s fun sl => (s, .bit sl.env.done)
  | .steps => withSlot s fun sl => (s, .int sl.env.steps)
  | .dump => withSlot s fun sl =>
    let t := sl.env.table
    (s, .dump t.areValuesKnown (qsOf t.getLowerBounds) (qsOf t.getUpperBounds))
  | .snap => withSlot s fun sl =>
    let e := sl.env
    let t := e.table
    (s, .snap e.actionMasks (qsOf e.state) ((e.reward (envGapOf s.oracle sl.gapk)).map qOf) e.done e.steps
          t.areValuesKnown (qsOf t.getLowerBounds) (qsOf t.getUpperBounds))
  | .solve which => withSlot s fun sl =>
    match which with
    | 0 => updE s sl (Env.greedy (envComputeOf s.oracle sl.comp) (envGapOf s.oracle sl.gapk) false sl.env) .act
    | 1 => updE s sl (Env.greedy (envComputeOf s.oracle sl.comp) (envGapOf s.oracle sl.gapk) true sl.env) .act
    | _ => (s, rdE .act sl.env.largest)
  | .random a => withSlot s fun sl => (s, .bit (sl.env.randomOk a))
  | .linsizes => withSlot s fun sl => (s, .nats sl.env.subsetSizes)
  | .linmask => withSlot s fun sl => (s, rdE .bools sl.env.linMask)
  | .linstate => withSlot s fun sl => (s, rdE (fun l => .rats (qsOf l)) sl.env.linState)
  | .lincands k => withSlot s fun sl => (s, .nats (sl.env.linCandidates k))
  | .linreset full norm => withSlot s fun sl =>
    updE s sl (Env.linReset (envComputeOf s.oracle sl.comp) sl.env (getR full) (getR norm)) (fun obs => .obs (qsOf obs))
  | .linstep k chosen => withSlot s fun sl =>
    match Env.linStep (envComputeOf s.oracle sl.comp) (envGapOf s.oracle sl.gapk) sl.env k chosen with
    | some r => updE s sl r outQ
    | none => (s, .illegal)
  | .drop => ({ slot := none, oracle := [] }, .ok)

def envOps (s : EState) : List EOp → List EAns
  | [] => []
  | op :: rest => let (s', a) := op.run s; a :: envOps s' rest

/-! ### where a segment starts -/

inductive EStart where
  | fresh
  /-- oracle entries (newest first, as the driver keeps them); `env new` arguments; `env info` answer; the hidden game
      and its normalised copy; `env snap` answer (`steps`, `K`, `L`, `U`) -/
  | shown (oracle : List OEntry) (comp : EComp) (gapk : EGap) (budget : Option Nat)
          (n : Nat) (ik ex : List Nat) (full norm : List Rat)
          (steps : Int) (known : List Bool) (lo hi : List Rat)

def EStart.state : EStart → EState
  | .fresh => { slot := none, oracle := [] }
  | .shown o comp gapk budget n ik ex full norm steps k l u =>
    { oracle := o,
      slot := some { comp := comp, gapk := gapk,
                     env := { full := getR full, norm := getR norm, table := tableOf n k l u, steps := steps,
                              budget := budget, initiallyKnown := ik, explorable := ex } } }

def envRun (s : EStart) (ops : List EOp) : List EAns := envOps s.state ops

end ICG.KC
