/-
  ICG.KernelCheck.Norm — kernel cross-check glue for protocol domain `norm` (ICG/Driver/Norm.lean; model
  ICG/Model/Normalize.lean).  One wrapper per protocol operation: literal input → the SAME model calls as
  `ICG.Driver.Norm.handle` → the answer as comparable literals (rationals as numerator / denominator pairs).

  The wrappers repeat the driver's own glue (`matOf`, `matList`, the re-tabulation `Table.compactT` of the table handed to
  the model) — the kernel evaluates `Array.ofFn` / `Array` reads at these sizes without difficulty.  `norm closed` reads its
  value vector through `KC.getR` (`List.getD`, default 0) where the driver reads an `Array` with the same default.
  Imports the model only: core Lean, no Mathlib.
-/
import ICG.KernelCheck.Basic
import ICG.Model.Normalize
namespace ICG.KC
open ICG ICG.Norm

/-- `Driver.Norm.matOf`: row-major list → matrix (0 outside the list) -/
def matOf (n : Nat) (l : List Rat) : Nat → Nat → Rat :=
  let a := l.toArray
  fun r c => if h : r * n + c < a.size then a[r * n + c] else 0

/-- `Driver.Norm.matList`: the n × n block, row-major -/
def matQ (n : Nat) (m : Nat → Nat → Rat) : List Q :=
  qsOf ((List.range n).flatMap (fun r => (List.range n).map (fun c => m r c)))

/-- `I=… S=…` -/
def infoQ (info : Rat × List Rat) : Q × List Q := (qOf info.1, qsOf info.2)

/-- `L=… U=…` -/
def tableQ (t : Table Rat) : List Q × List Q := (qsOf t.getLowerBounds, qsOf t.getUpperBounds)

/-- `norm icg <n> <values> [<rtol>]` → `I S L U` -/
def normIcg (rtol : Rat) (n : Nat) (vals : List Rat) : Except Err ((Q × List Q) × (List Q × List Q)) := do
  let t ← (Table.init (α := Rat) n).setValues vals none
  let (info, t') ← normalizeGame rtol t.compactT
  pure (infoQ info, tableQ t')

/-- `norm icgpart <n> <ids> <values> [<rtol>]` -/
def normIcgPart (rtol : Rat) (n : Nat) (ids : List Nat) (vals : List Rat) :
    Except Err ((Q × List Q) × (List Q × List Q)) := do
  let t ← match (Table.init (α := Rat) n).setKnownValues vals (some ids) with
    | .ok t => pure t
    | .error (e, _) => throw e
  let (info, t') ← normalizeGame rtol t.compactT
  pure (infoQ info, tableQ t')

/-- `norm closed <n> <values> [<rtol>]` → `V=` (the driver answers `bad-op` unless `vals.length = 2^n`;
    the harness only makes a statement of an answered line, so the length is right) -/
def normClosed (rtol : Rat) (n : Nat) (vals : List Rat) : List Q :=
  qsOf ((allCoalitions n).map (normVal n rtol (getR vals)))

/-- `norm graph <n> <matrix>` → `I S M V` -/
def normGraph (n : Nat) (mat : List Rat) : (Q × List Q) × List Q × List Q :=
  let g := GraphGame.ofMatrix n (matOf n mat)
  let (info, g') := normalizeGameGraph g
  (infoQ info, matQ n g'.m, qsOf (graphValues g'))

/-- `norm gtable <n> <matrix>` → `V=` -/
def normGtable (n : Nat) (mat : List Rat) : List Q :=
  qsOf (graphValues (GraphGame.ofMatrix n (matOf n mat)))

/-- `norm denorm <n> <g> <singles> <values>` → `L U` -/
def normDenorm (n : Nat) (g : Rat) (singles vals : List Rat) : Except Err (List Q × List Q) := do
  let t ← (Table.init (α := Rat) n).setValues vals none
  let t' ← denormalize t.compactT (g, singles)
  pure (tableQ t')

/-- `norm gdenorm <n> <g> <matrix>` → `M V` -/
def normGdenorm (n : Nat) (g : Rat) (mat : List Rat) : List Q × List Q :=
  let gm := denormalizeGraph (GraphGame.ofMatrix n (matOf n mat)) (g, [])
  (matQ n gm.m, qsOf (graphValues gm))

end ICG.KC
