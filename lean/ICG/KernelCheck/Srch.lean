/-
  ICG.KernelCheck.Srch — kernel cross-check glue for protocol domain `srch` (ICG/Driver/Srch.lean; model
  ICG/Model/Search.lean).

  The driver keeps named *gap tables* (`srch gt new` / `srch gt put`); every other operation reads at most one of them.
  A statement is ONE answered operation together with the whole history of the gap table it names: `gtOf n reps puts`
  rebuilds the table exactly as the driver does (`gt new`, then one `gt put` after the other, newest entry first).

  The instantiation of the model's parameters is the driver's, repeated here verbatim (the driver's `keyOf`, `gapOf` are
  `srchKeyOf`, `srchGapOf` here — all KernelCheck modules share the namespace `ICG.KC` and may be imported together —,
  `computeId`, `gameNo`, `scratch`, `isPerm`, `scriptEnv`), and every wrapper makes the SAME model call as
  `ICG.Driver.Srch.handle`: `possibleSeqs`, `poolChunks`, `getExploitabilities`, `getExploitabilitiesOfSeq`,
  `getBestExploitability`, `metaValue`, `expectedGreedy`, `evalOne`, `poolDraws`.
  Imports the model only: core Lean, no Mathlib.
-/
import ICG.KernelCheck.Basic
import ICG.Model.Search
namespace ICG.KC
open ICG ICG.Search

/-- `Driver.Srch.GapTab` -/
structure GapTab where
  n : Nat
  reps : Nat
  entries : List (Nat × List Rat)      -- key = Σ 2^c over the known coalitions c

def srchKeyOf (ids : List Nat) : Nat := ids.eraseDups.foldl (fun k c => k + 2 ^ c) 0

/-- `srch gt new x n reps` followed by the `srch gt put x ids vals` lines in the order they were sent -/
def gtOf (n reps : Nat) (puts : List (List Nat × List Rat)) : GapTab :=
  puts.foldl (fun g p => { g with entries := (srchKeyOf p.1, p.2) :: g.entries }) { n := n, reps := reps, entries := [] }

/-- the opaque gap: (hidden game number read off the table, known set) ↦ harness-supplied real gap -/
def srchGapOf (g : GapTab) (t : Table Rat) : Except Err Rat :=
  let known := knownOf t
  let j := (known.map t.hi).foldl max 0
  match g.entries.find? (·.1 == srchKeyOf known) with
  | none => .error .other
  | some (_, vals) =>
    if j.den = 1 ∧ 1 ≤ j.num then
      match vals[j.num.toNat - 1]? with
      | some x => .ok x
      | none => .error .other
    else .error .other

def computeId (t : Table Rat) : Except Err (Table Rat) := .ok t
def gameNo (j : Nat) : Nat → Rat := fun _ => (j : Rat)

/-- the scratch game handed to the search: knows `start`, with stale values and stale bounds -/
def scratch (n : Nat) (start : List Nat) (poison : Rat) : Table Rat :=
  { n := n, known := fun c => start.contains c,
    lo := fun c => if poison = 0 then 0 else poison - c,
    hi := fun c => if poison = 0 then 0 else poison + c }

def isPerm (a b : List Nat) : Bool := a.length == b.length && a.all b.contains && b.all a.contains

/-- scripted environment for `evalone`: the env's answers are inputs -/
def scriptEnv : EnvOps (Rat × List (Rat × Bool × Nat)) Unit Rat :=
  { reset := fun e r => (e, r), reward := fun e => e.1,
    step := fun e _ => match e.2 with
      | [] => .error .other
      | (r, d, c) :: rest => .ok ((r, rest), r, d, c) }

/-! ### one wrapper per operation -/

/-- `srch seqs <unknown ids> <k|none>` -/
def srchSeqs (unk : List Nat) (k : Option Nat) : List (List Nat) := possibleSeqs unk k

/-- `srch chunks <len> <procs>` -/
def srchChunks (len procs : Nat) : Except Err (List Nat) :=
  if procs = 0 then .error .value else .ok ((poolChunks (List.range len) procs).map List.length)

/-- `srch expl <name> <j> <start ids> <k|none> <procs> <poison>` -/
def srchExpl (g : GapTab) (j : Nat) (start : List Nat) (k : Option Nat) (procs : Nat) (poison : Rat) :
    Except Err (List (List Nat × Q)) :=
  (getExploitabilities computeId (srchGapOf g) (scratch g.n start poison) (gameNo j) k procs).map
    (·.map (fun p => (p.1, qOf p.2)))

/-- `srch stack <name> <start ids> <seq> <procs> <poison>` -/
def srchStack (g : GapTab) (start seq : List Nat) (procs : Nat) (poison : Rat) : Except Err (List Q) :=
  let games := (List.range g.reps).map (fun j => gameNo (j + 1))
  (getExploitabilitiesOfSeq computeId (srchGapOf g) (scratch g.n start poison) games seq procs).map qsOf

/-- `srch best <name> <start ids> <maxsteps> <procs>` → rows, actions -/
def srchBest (g : GapTab) (start : List Nat) (maxSteps procs : Nat) : Except Err (List (List Q) × List (List Nat)) :=
  match getBestExploitability computeId (srchGapOf g) (scratch g.n start 0) (fun i => gameNo (i + 1)) maxSteps g.reps procs with
  | .ok (_, b) => .ok (b.map (fun r => qsOf r.1), b.map (·.2))
  | .error e => .error e

/-- `srch meta <name> <j> <m> <poison>` -/
def srchMeta (g : GapTab) (j m : Nat) (poison : Rat) : Except Err Q :=
  match metaValue computeId (srchGapOf g) (gameNo j) (scratch g.n [] poison) m with
  | .ok (_, x) => .ok (qOf x)
  | .error e => .error e

/-- `srch greedy <name> <start ids> <explorable ids> <maxsteps> <procs> <orders>`; `none` = `bad-order` -/
def srchGreedy (g : GapTab) (start expl : List Nat) (maxSteps procs : Nat) (orders : List (List Nat)) :
    Except Err (Option (List (List Q) × List Nat)) :=
  let games := (List.range g.reps).map (fun j => gameNo (j + 1))
  let order : List Nat → List Nat → List Nat := fun acts _ => (orders[acts.length]?).getD []
  match expectedGreedy computeId (srchGapOf g) order (scratch g.n start 0) games expl maxSteps procs with
  | .ok (rows, acts) =>
    -- the supplied orders must be iteration orders of the sets the model actually had
    let okOrders := (List.range acts.length).all (fun i =>
      isPerm ((orders[i]?).getD []) (expl.eraseDups.filter (fun c => !(acts.take i).contains c)))
    if okOrders then .ok (some (rows.map qsOf, acts)) else .ok none
  | .error e => .error e

/-- `srch evalone <limit> <reward after reset> <reward:done:chosen;…>` -/
def srchEvalOne (limit : Nat) (r0 : Rat) (steps : List (Rat × Bool × Nat)) : Except Err (List Q × List Nat) :=
  match evalOne scriptEnv (fun (u : Unit) _ => .ok (u, 0)) limit ((), ()) (r0, steps) with
  | .ok (_, r) => .ok (qsOf r.1, r.2)
  | .error e => .error e

/-- `srch pooldraws <ctor draws> <limit> <reps> <procs>` -/
def srchPoolDraws (ctor limit reps procs : Nat) : Except Err (List (List Int × List Nat)) :=
  poolDraws ctor limit reps procs

end ICG.KC
