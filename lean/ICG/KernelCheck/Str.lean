/-
  ICG.KernelCheck.Str — long ASCII strings for the kernel cross-check (used by KernelCheck/Store and KernelCheck/Codec).

  Why.  The kernel turns a string literal into `String.ofList [chars]`, i.e. into the UTF-8 bytes
  `List.utf8Encode chars = (chars.flatMap utf8EncodeChar).toByteArray`, and `List.toByteArray` is an accumulator loop of
  `ByteArray.push` (= `List.concat` on the underlying list): QUADRATIC when unfolded by the kernel (measured: one
  comparison of two literals takes 21 ms at 16 characters, 0.17 s at 64, 2.6 s at 256, 42 s at 1024, and a kernel stack
  overflow at 2000).  Protocol tokens of the `store` / `codec` domains (names, float texts, file contents in hex) are
  ASCII and can be hundreds to thousands of characters long.

  What.  `strC [(l₁, n₁), (l₂, n₂), …]` is the ASCII string made of chunks: chunk i has `lᵢ` characters, the base-128
  digits of `nᵢ`, most significant first (`strN len n` is the one-chunk form).  The string is built DIRECTLY as
  `String.ofByteArray ⟨⟨bytes⟩⟩ proof`: the kernel gets the byte list by `Nat` divisions (GMP), linear, and string
  equality / `++` then work on that list (measured: 0.33 ms per character and traversal; 20 000 characters compare in
  13 s).  It is an ordinary closed term of type `String`, and `strC_eq_ofList` proves that it IS the string of the
  characters with these codes (`String.ofList`, what a literal is); `strN_eq_example` shows it on examples.  harness/kernelcheck.py writes every ASCII protocol token of 24
  characters or more this way, in chunks of 24 characters.
  Core Lean only.
-/
namespace ICG.KC

theorem ascii_char (n : Nat) (h : n < 128) :
    (Char.ofNat n).toUInt8 = UInt8.ofNat n ∧ (Char.ofNat n).utf8Size = 1 := by
  revert n
  decide

theorem valid_append_ascii (l : List UInt8) (h : ∀ b ∈ l, b < 128) (acc : ByteArray) (ha : acc.IsValidUTF8) :
    (ByteArray.mk ⟨acc.data.toList ++ l⟩).IsValidUTF8 := by
  induction l generalizing acc with
  | nil => simpa using ha
  | cons b l ih =>
    have hb : b.toNat < 128 := UInt8.lt_iff_toNat_lt.mp (h b (by simp))
    obtain ⟨h1, h2⟩ := ascii_char b.toNat hb
    have hv : (acc.push b).IsValidUTF8 := by
      have := ha.push h2
      rw [h1] at this
      simpa using this
    have := ih (fun x hx => h x (by simp [hx])) (acc.push b) hv
    simpa [ByteArray.push] using this

/-- bytes below 128 are the UTF-8 encoding of the ASCII characters with these codes -/
theorem valid_ascii (l : List UInt8) (h : ∀ b ∈ l, b < 128) : (ByteArray.mk ⟨l⟩).IsValidUTF8 := by
  have := valid_append_ascii l h ByteArray.empty ByteArray.isValidUTF8_empty
  simpa using this

/-- the last `k` base-128 digits of `n` in front of `acc`.  The `match` on `n` makes the kernel evaluate the quotient
    to a literal at every step (otherwise the divisions would pile up unevaluated). -/
def digits7 : Nat → Nat → List UInt8 → List UInt8
  | 0, _, acc => acc
  | k + 1, n, acc =>
    match n with
    | 0 => digits7 k 0 (UInt8.ofNat (0 % 128) :: acc)
    | m + 1 => digits7 k ((m + 1) / 128) (UInt8.ofNat ((m + 1) % 128) :: acc)

theorem digits7_lt (k n : Nat) (acc : List UInt8) (h : ∀ b ∈ acc, b < 128) : ∀ b ∈ digits7 k n acc, b < 128 := by
  induction k generalizing n acc with
  | zero => simpa [digits7] using h
  | succ k ih =>
    have key : ∀ x : Nat, ∀ b ∈ UInt8.ofNat (x % 128) :: acc, b < 128 := by
      intro x b hb
      rcases List.mem_cons.mp hb with rfl | hb
      · have : x % 128 < 128 := Nat.mod_lt _ (by decide)
        have h128 : (128 : UInt8).toNat = 128 := rfl
        rw [UInt8.lt_iff_toNat_lt, h128]
        simp only [UInt8.toNat_ofNat']
        omega
      · exact h b hb
    cases n with
    | zero => exact ih 0 _ (key 0)
    | succ m => exact ih _ _ (key (m + 1))

/-- the ASCII string with the `len` character codes given by the base-128 digits of `n` (most significant first) -/
def strN (len n : Nat) : String :=
  String.ofByteArray ⟨⟨digits7 len n []⟩⟩ (valid_ascii _ (digits7_lt len n [] (by simp)))

/-- the bytes of a string given in chunks `(length, base-128 numeral)` -/
def chunkBytes : List (Nat × Nat) → List UInt8
  | [] => []
  | (len, n) :: rest => digits7 len n (chunkBytes rest)

theorem chunkBytes_lt : ∀ (c : List (Nat × Nat)), ∀ b ∈ chunkBytes c, b < 128
  | [] => by simp [chunkBytes]
  | (len, n) :: rest => by
    simpa [chunkBytes] using digits7_lt len n (chunkBytes rest) (chunkBytes_lt rest)

/-- a long ASCII string in chunks: `strC [(l₁, n₁), (l₂, n₂), …] = strN l₁ n₁ ++ strN l₂ n₂ ++ …`.  Short chunks keep the
    numerals the kernel meets while peeling off digits small and few per chunk (the kernel's caches hash a big `Nat`
    literal by a few of its bits: the quotients of ONE long periodic numeral collide massively — a string of 1200
    alternating characters took 18 s as one numeral, 0.2 s in chunks of 24). -/
def strC (chunks : List (Nat × Nat)) : String :=
  String.ofByteArray ⟨⟨chunkBytes chunks⟩⟩ (valid_ascii _ (chunkBytes_lt chunks))

/-- the character with code `b` -/
def asciiChar (b : UInt8) : Char := Char.ofNat b.toNat

theorem utf8Encode_ascii (l : List UInt8) (h : ∀ b ∈ l, b < 128) :
    (l.map asciiChar).utf8Encode = ByteArray.mk ⟨l⟩ := by
  induction l with
  | nil => rfl
  | cons b l ih =>
    have hb : b.toNat < 128 := UInt8.lt_iff_toNat_lt.mp (h b (by simp))
    obtain ⟨h1, h2⟩ := ascii_char b.toNat hb
    have ih' := ih (fun x hx => h x (by simp [hx]))
    rw [List.map_cons, List.utf8Encode_cons, ih', List.utf8Encode_singleton,
      String.utf8EncodeChar_eq_singleton (c := asciiChar b) h2]
    have : (asciiChar b).val.toUInt8 = b := by
      show (Char.ofNat b.toNat).toUInt8 = b
      rw [h1]
      simp
    rw [this]
    apply ByteArray.ext
    simp

/-- `strC chunks` IS the string of the characters whose codes are the chunks' base-128 digits -/
theorem strC_eq_ofList (c : List (Nat × Nat)) : strC c = String.ofList ((chunkBytes c).map asciiChar) := by
  apply String.toByteArray_inj.mp
  rw [String.toByteArray_ofList, utf8Encode_ascii _ (chunkBytes_lt c)]
  rfl

/-- `"Az09"` = 65·128³ + 122·128² + 48·128 + 57 -/
theorem strN_eq_example : strN 4 0x83e9839 = "Az09" ∧ strN 0 0 = "" ∧ strN 2 0x30b1 ++ strN 1 0x32 = "a12"
    ∧ strC [(2, 0x20fa), (2, 0x1839)] = "Az09" := by
  decide +kernel

end ICG.KC
