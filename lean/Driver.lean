/-
  Driver — the model behind a one-line-in, one-line-out protocol.  `driver` reads operations from
  stdin, one per line, `<domain> <op> <args…>`, and prints one canonical answer line per operation.
  Imports the executable model only (no Mathlib), so it links as a native executable.
  Domains: tab, bits, shp, env, srch, norm, gen, rgt, store, codec, mul (one module ICG/Driver/<Domain>.lean each).
-/
import ICG.Driver.Tab
import ICG.Driver.Bits
import ICG.Driver.Shp
import ICG.Driver.Env
import ICG.Driver.Srch
import ICG.Driver.Norm
import ICG.Driver.Gen
import ICG.Driver.Rgt
import ICG.Driver.Store
import ICG.Driver.Codec
import ICG.Driver.Mul

open ICG ICG.Proto

structure DS where
  tab : ICG.Driver.Tab.State := ICG.Driver.Tab.init
  bits : ICG.Driver.Bits.State := ICG.Driver.Bits.init
  shp : ICG.Driver.Shp.State := ICG.Driver.Shp.init
  env : ICG.Driver.Env.State := ICG.Driver.Env.init
  srch : ICG.Driver.Srch.State := ICG.Driver.Srch.init
  norm : ICG.Driver.Norm.State := ICG.Driver.Norm.init
  gen : ICG.Driver.Gen.State := ICG.Driver.Gen.init
  rgt : ICG.Driver.Rgt.State := ICG.Driver.Rgt.init
  store : ICG.Driver.Store.State := ICG.Driver.Store.init
  codec : ICG.Driver.Codec.State := ICG.Driver.Codec.init
  mul : ICG.Driver.Mul.State := ICG.Driver.Mul.init

def stepLine (s : DS) (line : String) : DS × String :=
  match words line with
  | "tab" :: rest => let (t, out) := ICG.Driver.Tab.handle s.tab rest; ({ s with tab := t }, out)
  | "bits" :: rest => let (t, out) := ICG.Driver.Bits.handle s.bits rest; ({ s with bits := t }, out)
  | "shp" :: rest => let (t, out) := ICG.Driver.Shp.handle s.shp rest; ({ s with shp := t }, out)
  | "env" :: rest => let (t, out) := ICG.Driver.Env.handle s.env rest; ({ s with env := t }, out)
  | "srch" :: rest => let (t, out) := ICG.Driver.Srch.handle s.srch rest; ({ s with srch := t }, out)
  | "norm" :: rest => let (t, out) := ICG.Driver.Norm.handle s.norm rest; ({ s with norm := t }, out)
  | "gen" :: rest => let (t, out) := ICG.Driver.Gen.handle s.gen rest; ({ s with gen := t }, out)
  | "rgt" :: rest => let (t, out) := ICG.Driver.Rgt.handle s.rgt rest; ({ s with rgt := t }, out)
  | "store" :: rest => let (t, out) := ICG.Driver.Store.handle s.store rest; ({ s with store := t }, out)
  | "codec" :: rest => let (t, out) := ICG.Driver.Codec.handle s.codec rest; ({ s with codec := t }, out)
  | "mul" :: rest => let (t, out) := ICG.Driver.Mul.handle s.mul rest; ({ s with mul := t }, out)
  | _ => (s, "bad-op")

partial def loop (h : IO.FS.Stream) (out : IO.FS.Stream) (s : DS) : IO Unit := do
  let line ← h.getLine
  if line.isEmpty then return ()
  let line := String.ofList (line.toList.filter (fun c => c != '\n' && c != '\r'))
  let (s', o) := stepLine s line
  out.putStrLn o
  loop h out s'

def main : IO Unit := do
  let stdin ← IO.getStdin
  let stdout ← IO.getStdout
  loop stdin stdout {}
