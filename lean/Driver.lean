/-
  Driver — the model behind a one-line-in, one-line-out protocol.  `driver` reads operations from
  stdin, one per line, `<domain> <op> <args…>`, and prints one canonical answer line per operation.
  Imports the executable model only (no Mathlib), so it links as a native executable.
-/
import ICG.Driver.Tab

open ICG ICG.Proto

structure DS where
  tab : ICG.Driver.Tab.State := ICG.Driver.Tab.init

def stepLine (s : DS) (line : String) : DS × String :=
  match words line with
  | "tab" :: rest => let (t, out) := ICG.Driver.Tab.handle s.tab rest; ({ s with tab := t }, out)
  | _ => (s, "bad-op")

partial def loop (h : IO.FS.Stream) (out : IO.FS.Stream) (s : DS) : IO Unit := do
  let line ← h.getLine
  if line.isEmpty then return ()
  let line := String.ofList (line.toList.filter (fun c => c != '\n' && c != '\r'))
  if line == "flush" then
    out.flush
    loop h out s
  else
    let (s', o) := stepLine s line
    out.putStrLn o
    loop h out s'

def main : IO Unit := do
  let stdin ← IO.getStdin
  let stdout ← IO.getStdout
  loop stdin stdout {}
