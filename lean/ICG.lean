import ICG.Model.Basic
import ICG.Model.Bits
import ICG.Model.Table
import ICG.Model.Bounds
