import Mathlib.Data.List.Sublists
def combos : Nat → List Nat → List (List Nat)
  | 0, _ => [[]]
  | _+1, [] => []
  | k+1, a :: l => (combos k l).map (a :: ·) ++ combos (k+1) l
#eval combos 2 [1,2,3,4]
#eval List.sublistsLen 2 [1,2,3,4]
theorem combos_perm : ∀ (k : Nat) (l : List Nat), (combos k l).Perm (List.sublistsLen k l)
  | 0, l => by simp [combos]
  | k+1, [] => by simp [combos]
  | k+1, a :: l => by
    rw [combos, List.sublistsLen_succ_cons]
    exact (List.perm_append_comm).trans (List.Perm.append (combos_perm (k+1) l) ((combos_perm k l).map _))
theorem combos_nodup {k l} (h : l.Nodup) : (combos k l).Nodup :=
  (combos_perm k l).nodup_iff.mpr (List.nodup_sublistsLen k h)
theorem mem_combos {k l s} : s ∈ combos k l ↔ s.Sublist l ∧ s.length = k :=
  (combos_perm k l).mem_iff.trans List.mem_sublistsLen
#print axioms mem_combos
