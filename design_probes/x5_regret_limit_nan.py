import numpy as np, warnings, itertools
warnings.filterwarnings("ignore")
from incomplete_cooperative.regret import GameRegretMinimizer
from incomplete_cooperative.coalitions import Coalition
def viable(n): return [c for c in range(2**n) if bin(c).count("1") not in (0,1,n)]
for n,limit in ((3,2),(3,3),(3,4),(3,7)):
    for plus in (False,True):
        rm=GameRegretMinimizer(n,limit,plus)
        V=viable(n); m=len(V)
        k=min(limit,m)
        terms=[list(map(Coalition,s)) for s in itertools.combinations(V,k)]
        rng=np.random.default_rng(0)
        ok=True
        for it in range(3):
            rm.regret_min_iteration(rng.random(len(terms)).astype(np.float32), terms)
        # check strategies at every regret-minimiser node
        bad=[]
        for r in range(rm.number_of_regret_minimizers):
            mid=int(rm.meta_rank_to_id[r])
            s=rm.regret_matching_strategy(mid)
            used=list(Coalition(mid).players)
            if not (np.all(np.isfinite(s)) and abs(s.sum()-1)<1e-5 and np.all(s>=0) and np.all(s[used]==0)):
                bad.append((mid,s))
        print(n,limit,plus,"nodes",rm.number_of_regret_minimizers,"bad",len(bad), bad[:2], "regret finite:", bool(np.all(np.isfinite(rm.cumulative_regret))))
