import numpy as np, warnings, signal
warnings.filterwarnings("ignore")
from incomplete_cooperative.run.model import ModelInstance
from incomplete_cooperative.run.greedy import get_greedy_rewards
from incomplete_cooperative.run.best_states import get_best_exploitability
def handler(s,f): raise TimeoutError("timeout")
signal.signal(signal.SIGALRM, handler)
for steps in (2,3,4,8):
    inst = ModelInstance(number_of_players=3, game_generator="factory", seed=3, run_steps_limit=steps)
    env = inst.get_env()
    signal.alarm(20)
    try:
        e,a = get_greedy_rewards(env, steps, 2, inst.gap_function_callable, 1)
        print("greedy steps",steps,"ok", np.round(e.mean(axis=1),3), a)
    except BaseException as ex:
        print("greedy steps",steps,"EXC",type(ex).__name__, str(ex)[:80])
    signal.alarm(0)
    env = inst.get_env()
    try:
        e,a = get_best_exploitability(env, steps, 2, inst.gap_function_callable, 1)
        print("best   steps",steps,"ok", np.round(e.mean(axis=1),3), a)
    except BaseException as ex:
        print("best   steps",steps,"EXC",type(ex).__name__, str(ex)[:80])
