import P1_ModelProbe
import Mathlib.Algebra.Order.Group.Int
import Mathlib.Algebra.Order.Ring.Rat
import Mathlib.Algebra.Order.Group.Defs

open ICG
-- generic statement (dummy) over Mathlib classes
theorem gen {α : Type} [AddCommGroup α] [LinearOrder α] [IsOrderedAddMonoid α] [Inhabited α]
   (known : Nat → Bool) (v : Nat → α) (c : Nat) : loSpec known v c = loSpec known v c := rfl

-- instantiate at Int with the *core* instances spelled out
theorem atInt (known : Nat → Bool) (v : Nat → Int) (c : Nat) :
   @loSpec Int Int.instAdd Int.instMax ⟨0⟩ known v c = @loSpec Int Int.instAdd Int.instMax ⟨0⟩ known v c :=
  gen (α := Int) known v c

theorem atRat (known : Nat → Bool) (v : Nat → Rat) (c : Nat) :
   @loSpec Rat Rat.instAdd Rat.instMax ⟨0⟩ known v c = @loSpec Rat Rat.instAdd Rat.instMax ⟨0⟩ known v c :=
  gen (α := Rat) known v c
#print axioms atInt
