import Mathlib.Algebra.BigOperators.Group.Finset.Basic
import Mathlib.Algebra.BigOperators.Group.Finset.Sigma
import Mathlib.Tactic.Ring
open Finset

theorem setBit_lt {n i S : ℕ} (hi : i < n) (hS : S < 2^n) : S ||| 2^i < 2^n :=
  Nat.or_lt_two_pow hS (Nat.pow_lt_pow_right (by omega) hi)

theorem testBit_setBit_self (S i : ℕ) : (S ||| 2^i).testBit i = true := by
  simp [Nat.testBit_or, Nat.testBit_two_pow_self]

theorem clear_set {S i : ℕ} (h : S.testBit i = false) : (S ||| 2^i) ^^^ 2^i = S := by
  apply Nat.eq_of_testBit_eq; intro j
  simp only [Nat.testBit_xor, Nat.testBit_or, Nat.testBit_two_pow]
  by_cases hij : i = j
  · subst hij; simp [h]
  · simp [hij]

theorem set_clear {T i : ℕ} (h : T.testBit i = true) : (T ^^^ 2^i) ||| 2^i = T := by
  apply Nat.eq_of_testBit_eq; intro j
  simp only [Nat.testBit_xor, Nat.testBit_or, Nat.testBit_two_pow]
  by_cases hij : i = j
  · subst hij; simp [h]
  · simp [hij]

theorem clear_lt {n i T : ℕ} (hi : i < n) (hT : T < 2^n) : T ^^^ 2^i < 2^n :=
  Nat.xor_lt_two_pow hT (Nat.pow_lt_pow_right (by omega) hi)

theorem testBit_clear_self {T i : ℕ} (h : T.testBit i = true) : (T ^^^ 2^i).testBit i = false := by
  simp [Nat.testBit_xor, Nat.testBit_two_pow_self, h]

/-- reindex "coalitions without i" to "coalitions with i" -/
theorem sum_without_eq_sum_with {M} [AddCommMonoid M] (n i : ℕ) (hi : i < n) (g : ℕ → M) :
    ∑ S ∈ (range (2^n)).filter (fun S => S.testBit i = false), g (S ||| 2^i)
  = ∑ T ∈ (range (2^n)).filter (fun T => T.testBit i = true), g T := by
  refine Finset.sum_nbij' (fun S => S ||| 2^i) (fun T => T ^^^ 2^i) ?_ ?_ ?_ ?_ ?_
  · intro S hS; simp only [mem_filter, mem_range] at hS ⊢
    exact ⟨setBit_lt hi hS.1, testBit_setBit_self S i⟩
  · intro T hT; simp only [mem_filter, mem_range] at hT ⊢
    exact ⟨clear_lt hi hT.1, testBit_clear_self hT.2⟩
  · intro S hS; simp only [mem_filter, mem_range] at hS; exact clear_set hS.2
  · intro T hT; simp only [mem_filter, mem_range] at hT; exact set_clear hT.2
  · intro S _; rfl

/-- double counting: swap player / coalition sums -/
theorem double_count {M} [AddCommMonoid M] (n : ℕ) (g : ℕ → ℕ → M) :
    ∑ i ∈ range n, ∑ T ∈ (range (2^n)).filter (fun T => T.testBit i = true), g i T
  = ∑ T ∈ range (2^n), ∑ i ∈ (range n).filter (fun i => T.testBit i = true), g i T := by
  simp only [Finset.sum_filter]
  exact Finset.sum_comm
#print axioms double_count
#print axioms sum_without_eq_sum_with
