import numpy as np, itertools, random, sys
from functools import partial
from incomplete_cooperative.bounds import *
from incomplete_cooperative.game import IncompleteCooperativeGame
from incomplete_cooperative.coalitions import Coalition, all_coalitions, minimal_game_coalitions
rnd = random.Random(1)
def popc(x): return bin(x).count("1")
def rand_sa_game(n, rnd, neg=False):
    # build superadditive integer game by closure
    N=2**n
    v=[0]*N
    order=sorted(range(1,N), key=popc)
    for c in order:
        base = max([v[x]+v[c^x] for x in range(1,c) if x & c == x] or [-10**9])
        if popc(c)==1: v[c]=rnd.randint(-5,5) if neg else rnd.randint(0,5)
        else: v[c]=base+rnd.choice([0,0,1,2,5])
    return v
def rand_sam_game(n, rnd):
    # superadditive and monotone nonincreasing, values <=0: v = -f with f subadditive monotone: coverage
    N=2**n
    sets=[frozenset(rnd.sample(range(2*n), rnd.randint(1,4))) for _ in range(n)]
    w={e:rnd.randint(1,4) for e in range(2*n)}
    v=[0]*N
    for c in range(N):
        u=set()
        for i in range(n):
            if c>>i&1: u|=sets[i]
        v[c]=-sum(w[e] for e in u)
    return v
def run(n, comp, v, K):
    g=IncompleteCooperativeGame(n, comp)
    ks=[Coalition(k) for k in K]
    g.set_known_values([v[k] for k in K], ks)
    g.compute_bounds()
    return g.get_lower_bounds().copy(), g.get_upper_bounds().copy()
def check(n, trials, sam=False):
    N=2**n
    minimal=[0,N-1]+[1<<i for i in range(n)]
    others=[c for c in range(N) if c not in minimal]
    bad=0
    for t in range(trials):
        v = rand_sam_game(n,rnd) if sam else rand_sa_game(n,rnd,neg=t%2==1)
        K = minimal+[c for c in others if rnd.random()<rnd.choice([0.1,0.5,0.9])]
        lo1,up1=run(n, compute_bounds_superadditive, v, K)
        lo2,up2=run(n, compute_bounds_superadditive_cached, v, K)
        va=np.array(v,float)
        if not (np.array_equal(lo1,lo2) and np.array_equal(up1,up2)): print("C03 diff", v, K); bad+=1
        if not (np.all(lo1<=va) and np.all(va<=up1)): print("C01 unsound", v, K); bad+=1
        if sam:
            prev=None
            for r in [0,1,2,3,10]:
                lo,up=run(n, partial(compute_bounds_superadditive_monotone_approx_cached, repetitions=r), v, K)
                if not (np.all(lo<=va) and np.all(va<=up)): print("C04 unsound", r, v, K, lo, up); bad+=1
                if not (np.all(lo>=lo1) and np.all(up<=up1)): print("C04 looser than SA", r); bad+=1
                if prev is not None and not (np.all(lo>=prev[0]) and np.all(up<=prev[1])): print("C04 rep loosens", r); bad+=1
                # monotone lower
                for a in range(N):
                    for b in range(N):
                        if a&b==a and lo[a]<lo[b]: print("C04 lower not monotone", r, a, b, v, K, lo); bad+=1; break
                prev=(lo,up)
    print("n",n,"sam",sam,"trials",trials,"bad",bad)
check(3,200); check(4,300); check(5,40)
check(3,200,True); check(4,200,True); check(5,30,True)
