import random
rnd=random.Random(12); popc=lambda x: bin(x).count("1")
def rand_sa(n,neg):
    N=2**n; v=[0]*N
    for c in sorted(range(1,N),key=popc):
        if popc(c)==1: v[c]=rnd.randint(-5,5) if neg else rnd.randint(0,5)
        else: v[c]=max(v[x]+v[c^x] for x in range(1,c) if x&c==x)+rnd.choice([0,0,1,2,5])
    return v
def spec(n,K,v):
    N=2**n; lo={}
    for c in range(N): lo[c]=v[c] if c in K else max(lo[x]+lo[c-x] for x in range(1,c) if x&c==x)
    up={c:(v[c] if c in K else min(v[T]-lo[T-c] for T in K if T&c==c and T!=c)) for c in range(N)}
    return lo,up
def is_sa(w,N): return all(w[a]+w[b]<=w[a|b] for a in range(N) for b in range(N) if a&b==0)
bad=0;cnt=0
for n in (3,4,5):
    N=2**n; minimal=[0,N-1]+[1<<i for i in range(n)]
    for t in range(40 if n<5 else 8):
        v=rand_sa(n,t%2==1); K=set(minimal+[c for c in range(N) if rnd.random()<rnd.choice([.2,.5,.8])])
        lo,up=spec(n,K,v)
        low=[lo[c] for c in range(N)]
        if not is_sa(low,N) or any(low[k]!=v[k] for k in K): bad+=1; print("lower game not a completion")
        for c in range(N):
            if c in K: continue
            w=[max(lo[T],up[c]+lo[T-c]) if T&c==c else lo[T] for T in range(N)]; cnt+=1
            if not is_sa(w,N) or any(w[k]!=v[k] for k in K) or w[c]!=up[c]: bad+=1; print("extremeUpper fails",n,c)
print("witnesses",cnt,"bad",bad)
