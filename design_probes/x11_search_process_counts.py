import numpy as np, random, itertools, time, warnings
warnings.filterwarnings("ignore")
from functools import partial
from incomplete_cooperative.bounds import BOUNDS
from incomplete_cooperative.game import IncompleteCooperativeGame
from incomplete_cooperative.coalitions import Coalition, minimal_game_coalitions, all_coalitions
from incomplete_cooperative.gameplay import get_exploitabilities_of_action_sequences, sample_exploitabilities_of_action_sequences
from incomplete_cooperative.meta_game import MetaGame
from incomplete_cooperative.generators import GENERATORS
from incomplete_cooperative.exploitability import compute_exploitability
from incomplete_cooperative.norms import l1_norm, linf_norm
from incomplete_cooperative.icg_gym import ICG_Gym
rnd=random.Random(3); popc=lambda x: bin(x).count("1")
def main():
    t0=time.time(); bad=0; evals=0
    for n,k in ((3,None),(4,2),(4,3)):
        N=2**n; minimal=[0,N-1]+[1<<i for i in range(n)]
        for gen_name,cls,gap in (("noisy_factory","superadditive",compute_exploitability),("graph","superadditive_cached",l1_norm),("xos","sam_apx_1",linf_norm)):
            full=GENERATORS[gen_name](n,np.random.default_rng(rnd.randrange(10**6)))
            extra=rnd.sample([c for c in range(N) if c not in minimal], rnd.choice([0,1]))
            start=minimal+extra
            ref=None
            for procs in (1,2,3,5,16):
                g=IncompleteCooperativeGame(n,BOUNDS[cls])
                ks=[Coalition(c) for c in start]; g.set_known_values(full.get_values(ks),ks)
                # poison stale rows
                for c in range(N):
                    if c not in start: g.set_lower_bound(rnd.randint(-9,9),Coalition(c)); g.set_upper_bound(rnd.randint(-9,9),Coalition(c))
                res=list(get_exploitabilities_of_action_sequences(g,full,gap,max_size=k,processes=procs))
                seqs=[tuple(c.id for c in s) for s,_ in res]; vals=[v for _,v in res]
                unknown=[c for c in range(N) if c not in start]
                kk=len(unknown) if k is None else k
                expect=[t for i in range(kk+1) for t in itertools.combinations(unknown,i)]
                if seqs!=expect: bad+=1; print("enumeration wrong")
                # independent value
                for s,v in zip(seqs,vals):
                    h=IncompleteCooperativeGame(n,BOUNDS[cls]); kk2=[Coalition(c) for c in start+list(s)]
                    h.set_known_values(full.get_values(kk2),kk2); h.compute_bounds(); evals+=1
                    if gap(h)!=v: bad+=1; print("value wrong",procs)
                if ref is None: ref=vals
                elif ref!=vals: bad+=1; print("procs differ",procs)
            if not extra and n==3:
                mg=MetaGame(full, IncompleteCooperativeGame(n,BOUNDS[cls]), gap)
                players=[c for c in range(N) if c not in minimal]
                for s,v in zip(seqs,ref):
                    mc=Coalition.from_players([players.index(c) for c in s])
                    if mg.get_value(mc)!=v: bad+=1; print("metagame differs")
    print("evals",evals,"bad",bad,round(time.time()-t0,1))
if __name__=="__main__": main()
