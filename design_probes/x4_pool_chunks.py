from multiprocessing import Pool
class Ctr:
    def __init__(self): self.c=0
    def nxt(self): self.c+=1; return self.c
def task(ctr, j):
    return ctr.nxt()
if __name__=="__main__":
    for procs in (1,2,3,4,16):
        for reps in (5,24):
            c=Ctr(); c.nxt(); c.nxt()
            with Pool(procs) as p:
                r=p.starmap(task, ((c,j) for j in range(reps)))
            print(procs, reps, r, "parent ctr", c.c)
