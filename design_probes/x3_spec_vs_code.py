import numpy as np, random
from functools import partial
from fractions import Fraction
from incomplete_cooperative.bounds import *
from incomplete_cooperative.game import IncompleteCooperativeGame
from incomplete_cooperative.coalitions import Coalition
rnd=random.Random(5)
def popc(x): return bin(x).count("1")
def subs(c): 
    x=c
    out=[]
    while True:
        out.append(x)
        if x==0: break
        x=(x-1)&c
    return out
def spec_sa(n,K,v):
    N=2**n; lo={}; 
    for c in range(N):
        if c in K: lo[c]=v[c]
        else: lo[c]=max(lo[x]+lo[c-x] for x in subs(c) if x not in (0,c))
    up={}
    for c in range(N):
        if c in K: up[c]=v[c]
        else: up[c]=min(v[T]-lo[T-c] for T in range(N) if T&c==c and T!=c and T in K)
    return lo,up
def spec_sam(n,K,v,r):
    N=2**n
    A={}
    for c in range(N):
        A[c]=v[c] if c in K else max(A[x]+A[c-x] for x in subs(c) if x not in (0,c))
    def closure(A):
        return {c:(v[c] if c in K else max(A[T] for T in range(N) if T&c==c)) for c in range(N)}
    B=closure(A)
    for i in range(r):
        A2={}
        for c in range(N):
            if c in K: A2[c]=v[c]
            else: A2[c]=max([B[c]+A2[0]]+[A2[x]+A2[c-x] for x in subs(c) if x not in (0,c)])
        B=closure(A2)
    up={}
    for c in range(N):
        if c in K: up[c]=v[c]
        else:
            up[c]=min(min(v[T]-B[T-c] for T in range(N) if T&c==c and T!=c and T in K),
                      min(v[x] for x in subs(c) if x not in (0,c) and x in K))
    return B,up
def rand_sam(n):
    sets=[frozenset(rnd.sample(range(2*n), rnd.randint(1,4))) for _ in range(n)]
    w={e:rnd.randint(1,4) for e in range(2*n)}
    return [-sum(w[e] for e in set().union(*[sets[i] for i in range(n) if c>>i&1])) for c in range(2**n)]
bad=0; tot=0
for n in (3,4,5):
    N=2**n; minimal=[0,N-1]+[1<<i for i in range(n)]
    for t in range(60 if n<5 else 15):
        v=rand_sam(n)
        K=set(minimal+[c for c in range(N) if rnd.random()<rnd.choice([.1,.5,.9])])
        for name,comp,spec in [("sa",compute_bounds_superadditive,lambda:spec_sa(n,K,v)),("sac",compute_bounds_superadditive_cached,lambda:spec_sa(n,K,v))]+[(f"sam{r}",partial(compute_bounds_superadditive_monotone_approx_cached,repetitions=r),(lambda r=r:spec_sam(n,K,v,r))) for r in (0,1,2,5)]:
            g=IncompleteCooperativeGame(n,comp)
            # adversarial stale rows
            for c in range(N):
                g.set_lower_bound(rnd.randint(-1000,1000),Coalition(c)); g.set_upper_bound(rnd.randint(-1000,1000),Coalition(c))
            for k in K: g.set_value(v[k],Coalition(k))
            g.compute_bounds()
            lo,up=spec()
            tot+=1
            if list(g.get_lower_bounds())!=[lo[c] for c in range(N)] or list(g.get_upper_bounds())!=[up[c] for c in range(N)]:
                bad+=1; print("MISMATCH",name,n,sorted(K),v); 
print("total",tot,"bad",bad)
