import Mathlib.Algebra.Order.Group.Defs
import Mathlib.Order.Lattice
import Mathlib.Tactic.Linarith
import Mathlib.Tactic.Abel

variable {α : Type} [AddCommGroup α] [LinearOrder α] [IsOrderedAddMonoid α]

def SA (v : Nat → α) : Prop := ∀ a b, a &&& b = 0 → v a + v b ≤ v (a ||| b)
def sub (c T : Nat) : Prop := c &&& T = c

instance (c T : Nat) : Decidable (sub c T) := by unfold sub; infer_instance

/-- candidate extreme completion for the upper bound `u` of coalition `c` -/
def extremeUpper (lo : Nat → α) (c : Nat) (u : α) (T : Nat) : α :=
  if sub c T then max (lo T) (u + lo (T ^^^ c)) else lo T

-- bit facts, all by testBit extensionality
theorem bits_ext {x y : Nat} (h : ∀ i, x.testBit i = y.testBit i) : x = y := Nat.eq_of_testBit_eq h

theorem sub_or_left {c a b : Nat} (h : sub c a) : sub c (a ||| b) := by
  unfold sub at *; apply bits_ext; intro i
  have := congrArg (·.testBit i) h; simp at this ⊢
  cases hc : c.testBit i <;> cases ha : a.testBit i <;> simp_all

theorem not_sub_of_disj {c a b : Nat} (hc : c ≠ 0) (h : sub c a) (hab : a &&& b = 0) : ¬ sub c b := by
  intro hb; apply hc; unfold sub at *; apply bits_ext; intro i
  have h1 := congrArg (·.testBit i) h; have h2 := congrArg (·.testBit i) hb; have h3 := congrArg (·.testBit i) hab
  simp at h1 h2 h3 ⊢
  cases hc' : c.testBit i <;> cases ha : a.testBit i <;> cases hb' : b.testBit i <;> simp_all

theorem xor_or_disj {c a b : Nat} (h : sub c a) (hab : a &&& b = 0) :
    (a ^^^ c) &&& b = 0 ∧ (a ^^^ c) ||| b = (a ||| b) ^^^ c := by
  unfold sub at h
  constructor <;> (apply bits_ext; intro i
                   have h1 := congrArg (·.testBit i) h; have h3 := congrArg (·.testBit i) hab
                   simp at h1 h3 ⊢
                   cases hc' : c.testBit i <;> cases ha : a.testBit i <;> cases hb' : b.testBit i <;> simp_all)

theorem extremeUpper_SA (lo : Nat → α) (hlo : SA lo) (c : Nat) (hc : c ≠ 0) (u : α) :
    SA (extremeUpper lo c u) := by
  intro a b hab
  have hba : b &&& a = 0 := by rw [Nat.and_comm]; exact hab
  unfold extremeUpper
  by_cases ha : sub c a
  · have hb : ¬ sub c b := not_sub_of_disj hc ha hab
    have hab' : sub c (a ||| b) := sub_or_left ha
    simp only [ha, hb, hab', if_true, if_false]
    obtain ⟨hd, he⟩ := xor_or_disj ha hab
    have h1 := hlo a b hab
    have h2 := hlo (a ^^^ c) b hd
    rw [he] at h2
    rcases le_total (lo a) (u + lo (a ^^^ c)) with h | h
    · rw [max_eq_right h]
      calc u + lo (a ^^^ c) + lo b = u + (lo (a ^^^ c) + lo b) := by rw [add_assoc]
        _ ≤ u + lo ((a ||| b) ^^^ c) := by gcongr
        _ ≤ _ := le_max_right _ _
    · rw [max_eq_left h]; exact le_trans h1 (le_max_left _ _)
  · by_cases hb : sub c b
    · have hab' : sub c (a ||| b) := by rw [Nat.or_comm]; exact sub_or_left hb
      simp only [ha, hb, hab', if_true, if_false]
      obtain ⟨hd, he⟩ := xor_or_disj hb hba
      have h1 := hlo a b hab
      have h2 := hlo (b ^^^ c) a hd
      rw [he, Nat.or_comm b a] at h2
      rcases le_total (lo b) (u + lo (b ^^^ c)) with h | h
      · rw [max_eq_right h]
        calc lo a + (u + lo (b ^^^ c)) = u + (lo (b ^^^ c) + lo a) := by abel
          _ ≤ u + lo ((a ||| b) ^^^ c) := by gcongr
          _ ≤ _ := le_max_right _ _
      · rw [max_eq_left h]; exact le_trans h1 (le_max_left _ _)
    · simp only [ha, hb, if_false]
      have h1 := hlo a b hab
      split
      · exact le_trans h1 (le_max_left _ _)
      · exact h1
#print axioms extremeUpper_SA
