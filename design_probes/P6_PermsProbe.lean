import Mathlib.Algebra.BigOperators.Group.Finset.Basic
import Mathlib.Algebra.BigOperators.Group.Finset.Sigma
import Mathlib.Data.List.Permutation
import Mathlib.Data.List.Perm.Basic
open Finset

/-- first-element decomposition of the sum over all orderings of a non-empty list -/
theorem perms_decomp {M} [AddCommMonoid M] (R : List ℕ) (hne : R ≠ []) (f : List ℕ → M) :
    ∑ σ ∈ R.permutations.toFinset, f σ
  = ∑ x ∈ R.toFinset, ∑ τ ∈ (R.erase x).permutations.toFinset, f (x :: τ) := by
  rw [Finset.sum_sigma']
  symm
  refine Finset.sum_bij' (fun p _ => p.1 :: p.2) (fun σ _ => ⟨σ.headI, σ.tail⟩) ?_ ?_ ?_ ?_ ?_
  · rintro ⟨x, τ⟩ h
    simp only [mem_sigma, List.mem_toFinset, List.mem_permutations] at h ⊢
    exact List.cons_perm_iff_perm_erase.mpr ⟨h.1, h.2⟩
  · intro σ h
    simp only [mem_sigma, List.mem_toFinset, List.mem_permutations] at h ⊢
    cases σ with
    | nil => exact absurd (List.Perm.nil_eq h) (by simpa using hne.symm)
    | cons a σ =>
      simp only [List.headI_cons, List.tail_cons]
      exact List.cons_perm_iff_perm_erase.mp h
  · rintro ⟨x, τ⟩ _; simp
  · intro σ h
    simp only [List.mem_toFinset, List.mem_permutations] at h
    cases σ with
    | nil => exact absurd (List.Perm.nil_eq h) (by simpa using hne.symm)
    | cons a σ => simp
  · rintro ⟨x, τ⟩ _; rfl
#print axioms perms_decomp
