import numpy as np, random, time
from scipy.optimize import linprog
from incomplete_cooperative.bounds import compute_bounds_superadditive, compute_bounds_superadditive_cached
from incomplete_cooperative.game import IncompleteCooperativeGame
from incomplete_cooperative.coalitions import Coalition
rnd=random.Random(6); popc=lambda x: bin(x).count("1")
def rand_sa(n,neg):
    N=2**n; v=[0]*N
    for c in sorted(range(1,N),key=popc):
        if popc(c)==1: v[c]=rnd.randint(-5,5) if neg else rnd.randint(0,5)
        else: v[c]=max(v[x]+v[c^x] for x in range(1,c) if x&c==x)+rnd.choice([0,0,1,2,5])
    return v
t0=time.time(); bad=0; lps=0
for n in (3,4):
    N=2**n; minimal=[0,N-1]+[1<<i for i in range(n)]
    pairs=[(a,b) for a in range(1,N) for b in range(a+1,N) if a&b==0]
    A=np.zeros((len(pairs),N))
    for r,(a,b) in enumerate(pairs): A[r,a]+=1; A[r,b]+=1; A[r,a|b]-=1
    for t in range(12 if n==3 else 8):
        v=rand_sa(n,t%2==1)
        K=minimal+[c for c in range(N) if c not in minimal and rnd.random()<rnd.choice([.2,.5,.8])]
        g=IncompleteCooperativeGame(n,compute_bounds_superadditive if t%3 else compute_bounds_superadditive_cached)
        ks=[Coalition(k) for k in K]; g.set_known_values([v[k] for k in K],ks); g.compute_bounds()
        lo,up=g.get_lower_bounds(),g.get_upper_bounds()
        Aeq=np.zeros((len(K),N)); beq=np.array([v[k] for k in K],float)
        for r,k in enumerate(K): Aeq[r,k]=1
        for c in range(N):
            if c in K: continue
            for sign,bound in ((1,lo[c]),(-1,up[c])):
                obj=np.zeros(N); obj[c]=sign
                res=linprog(obj,A_ub=A,b_ub=np.zeros(len(pairs)),A_eq=Aeq,b_eq=beq,bounds=[(None,None)]*N,method="highs"); lps+=1
                if res.status!=0 or abs(sign*res.fun-bound)>1e-7: bad+=1; print("C02 mismatch",n,c,sign,res.status,res.fun,bound,K,v)
print("lps",lps,"bad",bad,round(time.time()-t0,1))
