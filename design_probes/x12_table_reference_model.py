import numpy as np, random, math
from incomplete_cooperative.game import IncompleteCooperativeGame
from incomplete_cooperative.coalitions import Coalition
rnd=random.Random(21)
class Ref:
    """reference model of the value table, written the way the Lean model will be"""
    def __init__(s,n): s.n=n; s.N=2**n; s.init()
    def init(s): s.k=[False]*s.N; s.lo=[0]*s.N; s.hi=[0]*s.N; s.k[0]=True
    def set_value(s,v,c): s.lo[c]=s.hi[c]=v; s.k[c]=True
    def unset(s,c): s.lo[c]=s.hi[c]=0; s.k[c]=False
    def set_values(s,vals,cs):
        if cs is None:
            if len(vals)!=s.N: raise ValueError
            for c in range(s.N): s.set_value(vals[c],c)
        else:
            if len(cs)<len(vals): raise ValueError       # fromiter: iterator too short
            for c,v in zip(cs[:len(vals)],vals): s.set_value(v,c)   # truncation, last write wins
    def set_known_values(s,vals,cs):
        s.init(); s.set_values(vals,cs)
    def reveal(s,v,c):
        if s.k[c]: raise AssertionError
        s.set_value(v,c)
    def unreveal(s,c):
        if not s.k[c]: raise AssertionError
        s.unset(c)
    def set_bounds(s,which,vals,cs):
        arr=s.hi if which=="hi" else s.lo
        if cs is None:
            if len(vals)!=s.N: raise ValueError
            for c in range(s.N):
                if not s.k[c]: arr[c]=vals[c]
        else:
            if len(cs)<len(vals): raise ValueError
            allv=[0]*s.N
            for c,v in zip(cs[:len(vals)],vals): allv[c]=v
            sel=set(cs[:len(vals)])
            known=list(s.k)
            for c in sel:
                if not known[c]: arr[c]=allv[c]
    def neg(s):
        r=Ref(s.n); r.k=list(s.k); r.lo=[-x for x in s.hi]; r.hi=[-x for x in s.lo]; return r
    def copy(s):
        r=Ref(s.n); r.k=list(s.k); r.lo=list(s.lo); r.hi=list(s.hi); return r
def dump_real(g): return ([bool(x) for x in g.are_values_known()],[float(x) for x in g.get_lower_bounds()],[float(x) for x in g.get_upper_bounds()])
def dump_ref(r): return (list(r.k),[float(x) for x in r.lo],[float(x) for x in r.hi])
def kind(e): return type(e).__name__
bad=0; ops=0; errs={}
for trial in range(400):
    n=rnd.randint(1,5); N=2**n
    objs=[(IncompleteCooperativeGame(n),Ref(n))]
    for step in range(40):
        gi=rnd.randrange(len(objs)); g,r=objs[gi]
        op=rnd.choice(["set","unset","reveal","unreveal","set_values","set_values_all","set_known","ub","lb","ub_all","copy","neg","get"])
        c=rnd.randrange(N); v=rnd.randint(-8,8)
        cs=[rnd.randrange(N) for _ in range(rnd.randint(0,5))]
        vals=[rnd.randint(-8,8) for _ in range(max(0,len(cs)+rnd.choice([0,0,0,-1,1])))]
        er=eg=None
        try:
            if op=="set": g.set_value(v,Coalition(c))
            elif op=="unset": g.unset_value(Coalition(c))
            elif op=="reveal": g.reveal_value(v,Coalition(c))
            elif op=="unreveal": g.unreveal_value(Coalition(c))
            elif op=="set_values": g.set_values(np.array(vals,float),[Coalition(x) for x in cs])
            elif op=="set_values_all": g.set_values(np.array([v+i for i in range(N)],float))
            elif op=="set_known": g.set_known_values(vals,[Coalition(x) for x in cs])
            elif op=="ub": g.set_upper_bounds(np.array(vals,float),[Coalition(x) for x in cs])
            elif op=="lb": g.set_lower_bounds(np.array(vals,float),[Coalition(x) for x in cs])
            elif op=="ub_all": g.set_upper_bounds(np.array([v+i for i in range(N)],float))
            elif op=="copy": objs.append((g.copy(),r.copy()))
            elif op=="neg": objs.append((-g,r.neg()))
            elif op=="get":
                a=g.get_known_value(Coalition(c)); b=(r.lo[c] if r.k[c] else None)
                if (a is None)!=(b is None) or (a is not None and a!=b): bad+=1; print("get_known_value")
                kv=g.get_known_values()
                for x in range(N):
                    if r.k[x]!=(not math.isnan(kv[x])) or (r.k[x] and kv[x]!=r.lo[x]): bad+=1; print("get_known_values")
                try: a=g.get_value(Coalition(c)); ok=True
                except ValueError: ok=False
                if ok!=r.k[c] or (ok and a!=r.lo[c]): bad+=1; print("get_value")
                try: g.get_values([Coalition(x) for x in cs]); ok=True
                except ValueError: ok=False
                if ok!=all(r.k[x] for x in cs): bad+=1; print("get_values")
        except Exception as e: eg=kind(e)
        try:
            if op=="set": r.set_value(v,c)
            elif op=="unset": r.unset(c)
            elif op=="reveal": r.reveal(v,c)
            elif op=="unreveal": r.unreveal(c)
            elif op=="set_values": r.set_values(vals,cs)
            elif op=="set_values_all": r.set_values([v+i for i in range(N)],None)
            elif op=="set_known": r.set_known_values(vals,cs)
            elif op=="ub": r.set_bounds("hi",vals,cs)
            elif op=="lb": r.set_bounds("lo",vals,cs)
            elif op=="ub_all": r.set_bounds("hi",[v+i for i in range(N)],None)
        except Exception as e: er=kind(e)
        ops+=1
        if eg: errs[(op,eg)]=errs.get((op,eg),0)+1
        if (eg is None)!=(er is None): bad+=1; print("error mismatch",op,eg,er,cs,vals)
        for gg,rr in objs:
            if dump_real(gg)!=dump_ref(rr): bad+=1; print("state mismatch after",op,eg,er,cs,vals); break
        if bad>5: break
    if bad>5: break
print("ops",ops,"bad",bad,"errors seen",errs)
