import numpy as np, random, itertools, time, warnings
warnings.filterwarnings("ignore")
from functools import partial
from incomplete_cooperative.bounds import BOUNDS
from incomplete_cooperative.game import IncompleteCooperativeGame
from incomplete_cooperative.coalitions import Coalition, minimal_game_coalitions
from incomplete_cooperative.icg_gym import ICG_Gym
from incomplete_cooperative.icg_gym_linear import ICG_Gym_Linear
from incomplete_cooperative.generators import GENERATORS
from incomplete_cooperative.normalize import normalize_game
from incomplete_cooperative.exploitability import compute_exploitability
from incomplete_cooperative.norms import l1_norm,l2_norm,linf_norm
rnd=random.Random(4); popc=lambda x: bin(x).count("1")
GAPS={"expl":compute_exploitability,"l1":l1_norm,"l2":l2_norm,"linf":linf_norm}
bad=0; states=0
def fresh_expect(n, comp, full, known_ids, gap):
    g=IncompleteCooperativeGame(n, comp)
    ks=[Coalition(k) for k in known_ids]
    g.set_known_values(full.get_values(ks), ks); g.compute_bounds()
    return g, -gap(g)
def check_env(env, n, comp, gap, budget, revealed, steps):
    global bad, states
    states+=1
    N=2**n; minimal={0,N-1}|{1<<i for i in range(n)}
    expl=[c for c in range(N) if c not in minimal]
    assert [c.id for c in env.explorable_coalitions]==expl
    known=minimal|set(revealed)
    ig=env.incomplete_game
    if [bool(x) for x in ig.are_values_known()]!=[c in known for c in range(N)]: bad+=1; print("known set wrong")
    full=env.full_game
    for c in known:
        if ig.get_value(Coalition(c))!=full.get_value(Coalition(c)): bad+=1; print("value wrong")
    if list(env.action_masks())!=[c not in known for c in expl]: bad+=1; print("mask wrong")
    norm=full.copy(); normalize_game(norm)
    exp_state=[norm.get_value(Coalition(c)) if c in known else 0.0 for c in expl]
    if list(env.state)!=exp_state: bad+=1; print("state wrong", list(env.state), exp_state)
    g,exp_reward=fresh_expect(n,comp,full,sorted(known),gap)
    if env.reward!=exp_reward or not np.array_equal(g.get_lower_bounds(),ig.get_lower_bounds()) or not np.array_equal(g.get_upper_bounds(),ig.get_upper_bounds()): bad+=1; print("reward/bounds not fresh")
    if exp_reward>1e-9: bad+=1; print("reward positive",exp_reward)
    exp_done=(budget is not None and steps>=budget) or all(c in known for c in expl) or bool(np.all(g.get_upper_bounds()-g.get_lower_bounds()==0))
    if env.done!=exp_done: bad+=1; print("done wrong")
t0=time.time()
for gen_name,cls in [("factory","superadditive"),("noisy_factory","superadditive_cached"),("graph_cycle","superadditive"),("xos","sam_apx_1"),("k_budget_generator","sam_apx_10"),("covg_fn_generator","superadditive_cached"),("factory_cheerleader_next","superadditive"),("oxs","sam_apx_1")]:
  for gap_name,gap in GAPS.items():
    for n in (3,4):
      for budget in (None,2):
        rng=np.random.default_rng(rnd.randrange(10**6)); comp=BOUNDS[cls]
        ig=IncompleteCooperativeGame(n,comp)
        env=ICG_Gym(ig, partial(GENERATORS[gen_name],n,rng), minimal_game_coalitions(n), gap, budget)
        nexp=len(env.explorable_coalitions)
        seqs=list(itertools.permutations(range(nexp))) if n==3 else [rnd.sample(range(nexp),nexp) for _ in range(3)]
        for seq in seqs:
            s,info=env.reset(); revealed=[]; steps=0
            assert info["game"] is env.full_game
            check_env(env,n,comp,gap,budget,revealed,steps)
            for a in seq:
                before=(env.state.copy(),env.reward,ig.get_lower_bounds().copy(),ig.get_upper_bounds().copy())
                st,rw,dn,_,inf=env.step(a); revealed.append(env.explorable_coalitions[a].id); steps+=1
                if inf["chosen_coalition"]!=revealed[-1] or rw!=env.reward or dn!=env.done or list(st)!=list(env.state): bad+=1; print("step result wrong")
                check_env(env,n,comp,gap,budget,revealed,steps)
                if rnd.random()<0.3:
                    env.unstep(a); revealed.pop(); steps-=1
                    after=(env.state.copy(),env.reward,ig.get_lower_bounds().copy(),ig.get_upper_bounds().copy())
                    if not all(np.array_equal(x,y) for x,y in zip(before,after)): bad+=1; print("undo not exact")
                    env.step(a); revealed.append(env.explorable_coalitions[a].id); steps+=1
print("states",states,"bad",bad,"time",round(time.time()-t0,1))
