import numpy as np, warnings, time
warnings.filterwarnings("ignore")
from incomplete_cooperative.generators import GENERATORS
from incomplete_cooperative.game_properties import is_superadditive, is_sam
SAMF = ("xos","xs","oxs","k_budget","covg")
res={}
t0=time.time()
for name,gen in GENERATORS.items():
    if name=="convex": continue
    for n in range(3,8):
        for seed in range(3):
            try:
                g=gen(n, np.random.default_rng(seed))
                v=g.get_values()
                ok = g.number_of_players==n and v[0]==0 and v.dtype==np.float64 and len(v)==2**n
                sa = is_superadditive(g)
                sam = is_sam(g) if name.startswith(SAMF) else True
                g2=gen(n, np.random.default_rng(seed)); det = np.array_equal(g2.get_values(), v)
                key=(ok,sa,sam,det)
            except Exception as e:
                key=("EXC",type(e).__name__,str(e)[:60])
            res.setdefault(name,{}).setdefault(key,[]).append((n,seed))
for name,r in res.items():
    for key,cases in r.items():
        if key!=(True,True,True,True):
            print(name,key,len(cases),cases[:4])
print("time",time.time()-t0)
