import numpy as np, random, itertools
from fractions import Fraction as F
from math import comb, factorial
from incomplete_cooperative.game import IncompleteCooperativeGame
from incomplete_cooperative.coalitions import Coalition
from incomplete_cooperative.exploitability import compute_exploitability
from incomplete_cooperative.shapley import compute_shapley_value, compute_shapley_value_for_player
from incomplete_cooperative.norms import l1_norm, l2_norm, linf_norm
rnd=random.Random(11)
popc=lambda x: bin(x).count("1")
bad=0
# C06: formula vs average over orderings; efficiency; entry points
for n in range(1,7):
    for t in range(6):
        N=2**n; nf=factorial(n)
        v=[0]+[rnd.randint(-20,20)*nf for _ in range(N-1)]
        g=IncompleteCooperativeGame(n); g.set_values(np.array(v,float))
        phi=list(compute_shapley_value(g))
        phi1=[compute_shapley_value_for_player(i,g) for i in range(n)]
        ords=[F(0)]*n
        for perm in itertools.permutations(range(n)):
            b=0
            for p in perm:
                ords[p]+=v[b|1<<p]-v[b]; b|=1<<p
        ords=[x/nf for x in ords]
        if [F(x) for x in phi]!=ords or phi!=phi1 or sum(F(x) for x in phi)!=v[N-1]: bad+=1; print("C06 bad",n,v)
# C05 identity on random bound vectors (exact: multiples of n!)
for n in range(2,7):
    for t in range(20):
        N=2**n; nf=factorial(n)
        lo=[rnd.randint(-30,30)*nf for _ in range(N)]; hi=[lo[c]+rnd.choice([0,0,1,2,7])*nf for c in range(N)]
        lo[0]=hi[0]=0
        hi[N-1]=lo[N-1]
        g=IncompleteCooperativeGame(n)
        g.set_value(lo[N-1],Coalition(N-1))
        for c in range(1,N-1):
            g.set_lower_bound(lo[c],Coalition(c)); g.set_upper_bound(hi[c],Coalition(c))
        e=compute_exploitability(g)
        ident=sum(F(hi[c]-lo[c],comb(n,popc(c))) for c in range(N))
        if F(e)!=ident: bad+=1; print("C05 bad",n,e,ident)
        w=[hi[c]-lo[c] for c in range(N)]
        if F(l1_norm(g))!=sum(abs(x) for x in w) or F(linf_norm(g))!=max(abs(x) for x in w) or abs(l2_norm(g)**2-sum(x*x for x in w))>1e-6*max(1,sum(x*x for x in w)): bad+=1; print("norm bad")
print("bad",bad)
