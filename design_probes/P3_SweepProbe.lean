-- core only
structure Table (α : Type) where
  known : Nat → Bool
  lo : Nat → α
  hi : Nat → α

def Table.setLo {α} (t : Table α) (c : Nat) (x : α) : Table α :=
  { t with lo := fun d => if d = c then x else t.lo d }

def sweepLo {α} (f : Table α → Nat → α) (order : List Nat) (t : Table α) : Table α :=
  order.foldl (fun t c => t.setLo c (f t c)) t

def psub (d c : Nat) : Prop := d &&& c = d ∧ d ≠ c

/-- invariant-carrying generalisation -/
theorem sweepLo_aux {α} (f : Table α → Nat → α) (P : Nat → α) (t0 : Table α) :
    ∀ (rest done : List Nat) (t : Table α),
      (∀ c ∈ rest, c ∉ done) → rest.Nodup →
      -- topological: proper sub-masks that are scheduled at all are already done or come earlier in rest
      (∀ (pre : List Nat) (c : Nat) (post : List Nat), rest = pre ++ c :: post →
          ∀ d, psub d c → (d ∈ done ∨ d ∈ rest) → d ∈ done ∨ d ∈ pre) →
      -- step function is correct whenever sub-mask rows are final and unscheduled rows are initial
      (∀ (t : Table α) (c : Nat) (fin : List Nat), t.known = t0.known → t.hi = t0.hi →
          (∀ d ∈ fin, t.lo d = P d) → (∀ d, d ∉ fin → t.lo d = t0.lo d) →
          (∀ d, psub d c → d ∈ done ∨ d ∈ rest → d ∈ fin) → c ∉ fin → (∀ d ∈ fin, d ∈ done ∨ d ∈ rest) →
          f t c = P c) →
      t.known = t0.known → t.hi = t0.hi →
      (∀ d ∈ done, t.lo d = P d) → (∀ d, d ∉ done → t.lo d = t0.lo d) →
      let r := sweepLo f rest t
      r.known = t0.known ∧ r.hi = t0.hi ∧ (∀ d, d ∈ done ∨ d ∈ rest → r.lo d = P d) ∧
        (∀ d, d ∉ done → d ∉ rest → r.lo d = t0.lo d) := by
  intro rest
  induction rest with
  | nil =>
    intro done t _ _ _ _ hk hh hd hnd
    simp [sweepLo]
    exact ⟨hk, hh, hd, fun d h => hnd d h⟩
  | cons c rest ih =>
    intro done t hdisj hnodup htopo hf hk hh hd hnd
    have hc_notdone : c ∉ done := hdisj c (by simp)
    have hc_notrest : c ∉ rest := (List.nodup_cons.mp hnodup).1
    have hfc : f t c = P c := by
      apply hf t c done hk hh hd hnd
      · intro d hpd hsched
        have := htopo [] c rest rfl d hpd hsched
        simpa using this
      · exact hc_notdone
      · intro d hd'; exact Or.inl hd'
    have key := ih (done ++ [c]) (t.setLo c (f t c))
      (by intro x hx; simp; exact ⟨hdisj x (by simp [hx]), by rintro rfl; exact hc_notrest hx⟩)
      (List.nodup_cons.mp hnodup).2
      (by
        intro pre x post hsplit d hpd hsched
        have := htopo (c :: pre) x post (by simp [hsplit]) d hpd (by
          rcases hsched with h | h
          · simp at h; rcases h with h | h
            · exact Or.inl h
            · subst h; exact Or.inr (by simp)
          · exact Or.inr (by simp [h]))
        rcases this with h | h
        · exact Or.inl (by simp [h])
        · simp at h; rcases h with h | h
          · subst h; exact Or.inl (by simp)
          · exact Or.inr h)
      (by
        intro t' x fin hk' hh' hfin hnfin hdeps hx hfinsub
        apply hf t' x fin hk' hh' hfin hnfin
        · intro d hpd hsched
          apply hdeps d hpd
          rcases hsched with h | h
          · exact Or.inl (by simp [h])
          · simp at h; rcases h with h | h
            · subst h; exact Or.inl (by simp)
            · exact Or.inr h
        · exact hx
        · intro d hdf
          rcases hfinsub d hdf with h | h
          · simp at h; rcases h with h | h
            · exact Or.inl h
            · subst h; exact Or.inr (by simp)
          · exact Or.inr (by simp [h]))
      (by simp [Table.setLo, hk]) (by simp [Table.setLo, hh])
      (by
        intro d hd'
        simp at hd'
        simp only [Table.setLo]
        rcases hd' with h | h
        · have : d ≠ c := by rintro rfl; exact hc_notdone h
          simp [this, hd d h]
        · subst h; simp [hfc])
      (by
        intro d hd'
        simp at hd'
        simp only [Table.setLo]
        simp [hd'.2, hnd d hd'.1])
    simp only [sweepLo, List.foldl] at key ⊢
    obtain ⟨k1, k2, k3, k4⟩ := key
    refine ⟨k1, k2, ?_, ?_⟩
    · intro d hd'
      apply k3
      rcases hd' with h | h
      · exact Or.inl (by simp [h])
      · simp at h; rcases h with h | h
        · subst h; exact Or.inl (by simp)
        · exact Or.inr h
    · intro d h1 h2
      simp at h2
      apply k4 d (by simp [h1, h2.1]) h2.2
#print axioms sweepLo_aux
