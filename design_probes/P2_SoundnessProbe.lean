import P1_ModelProbe
import Mathlib.Algebra.Order.Group.Defs
import Mathlib.Order.Lattice
import Mathlib.Tactic.Linarith

theorem Nat.add_eq_or_of_and_eq_zero' : ∀ (a b : Nat), a &&& b = 0 → a + b = a ||| b := by
  intro a
  induction a using Nat.strongRecOn with
  | _ a ih =>
    intro b h
    by_cases ha : a = 0
    · subst ha; simp
    · have hd := ih (a/2) (by omega) (b/2) (by rw [← Nat.and_div_two, h])
      have hm : (a &&& b) % 2 = 0 := by rw [h]
      have hor : (a ||| b) % 2 = 1 ↔ a % 2 = 1 ∨ b % 2 = 1 := Nat.or_mod_two_eq_one
      have hand : (a &&& b) % 2 = 1 ↔ a % 2 = 1 ∧ b % 2 = 1 := Nat.and_mod_two_eq_one
      have hod := @Nat.or_div_two a b
      omega

theorem sub_or_self {c x : Nat} (h : x &&& c = x) : x ||| (c - x) = c ∧ x &&& (c - x) = 0 := by
  have hdisj : x &&& (c ^^^ x) = 0 := by
    apply Nat.eq_of_testBit_eq; intro i
    have := congrArg (·.testBit i) h
    simp at this ⊢
    cases hx : x.testBit i <;> cases hc : c.testBit i <;> simp_all
  have hor : x ||| (c ^^^ x) = c := by
    apply Nat.eq_of_testBit_eq; intro i
    have := congrArg (·.testBit i) h
    simp at this ⊢
    cases hx : x.testBit i <;> cases hc : c.testBit i <;> simp_all
  have hadd := Nat.add_eq_or_of_and_eq_zero' x (c ^^^ x) hdisj
  have : c - x = c ^^^ x := by omega
  rw [this]; exact ⟨hor, hdisj⟩

namespace ICG
variable {α : Type} [AddCommGroup α] [LinearOrder α] [IsOrderedAddMonoid α] [Inhabited α]

def SuperAdd (v : Nat → α) : Prop := ∀ a b, a &&& b = 0 → v a + v b ≤ v (a ||| b)

theorem listMax_le {l : List α} (hl : l ≠ []) {b : α} (h : ∀ a ∈ l, a ≤ b) : listMax l ≤ b := by
  cases l with
  | nil => exact absurd rfl hl
  | cons a l =>
    simp only [listMax]
    have : ∀ (l : List α) (a : α), a ≤ b → (∀ x ∈ l, x ≤ b) → l.foldl max a ≤ b := by
      intro l; induction l with
      | nil => intro a ha _; simpa
      | cons y l ih => intro a ha hl; simp only [List.foldl]; exact ih _ (max_le ha (hl y (by simp))) (fun x hx => hl x (by simp [hx]))
    exact this l a (h a (by simp)) (fun x hx => h x (by simp [hx]))

theorem loSpec_sound (known : Nat → Bool) (v w : Nat → α) (hw : SuperAdd w)
    (hagree : ∀ c, known c = true → w c = v c)
    (hne : ∀ c, known c = false → properSubs c ≠ []) :
    ∀ c, loSpec known v c ≤ w c := by
  intro c
  induction c using Nat.strong_induction_on with
  | _ c ih =>
    unfold loSpec
    split
    · rename_i hk; rw [hagree c hk]
    · rename_i hk
      apply listMax_le
      · simpa using hne c (by simpa using hk)
      · intro a ha
        simp only [List.mem_map, List.mem_attach, true_and, Subtype.exists] at ha
        obtain ⟨x, hx, rfl⟩ := ha
        have h1 := ih x (properSubs_lt hx).1
        have h2 := ih (c - x) (properSubs_lt hx).2
        have hsub : x &&& c = x := by
          simp [properSubs, subsOf] at hx; exact hx.2.2
        have := hw x (c - x) (sub_or_self hsub).2
        rw [(sub_or_self hsub).1] at this
        calc _ ≤ w x + w (c - x) := add_le_add h1 h2
          _ ≤ w c := this
end ICG
