import numpy as np, random, json, tempfile, time, warnings, os, builtins
warnings.filterwarnings("ignore")
from pathlib import Path
from argparse import Namespace
t0=time.time()
from incomplete_cooperative.run.save import save_json, Output, get_outputs_from_file
print("import",round(time.time()-t0,1))
rnd=random.Random(8)
def rand_out():
    r,c=rnd.randint(1,4),rnd.randint(1,4)
    pool=[float("nan"),-1.5,0.0,-0.0,1e300,5e-324,0.1,1/3,2.0**53+2,-7.0]
    data=np.array([[rnd.choice(pool+[rnd.random()]) for _ in range(c)] for _ in range(r)])
    if rnd.random()<.3: actions=np.full((r,c,2),np.nan); actions[0,0,0]=3
    else: actions=np.array([[float(rnd.randint(0,31)) for _ in range(c)] for _ in range(max(1,r-1))])
    def func_eval(): pass
    ns=Namespace(func=func_eval, model_dir=Path("/x/y"), seed=rnd.randint(0,9), name=None, lr=0.5, flag=True, obj=object)
    return Output(data,actions,ns)
bad=0; saves=0
for trial in range(30):
    with tempfile.TemporaryDirectory() as d:
        p=Path(d)/"data.json"; model={}
        for step in range(rnd.randint(1,8)):
            name=rnd.choice(["a","b","c","run-%d"%step,"ü"]); out=rand_out()
            before=p.read_bytes() if p.exists() else None
            save_json(p,name,out); saves+=1
            if name in model:
                if p.read_bytes()!=before: bad+=1; print("existing name changed file")
            else: model[name]=out
            got=get_outputs_from_file(p)
            if list(got.keys())!=list(model.keys()): bad+=1; print("keys")
            for k,o in model.items():
                g=got[k]
                if g.data.shape!=o.data.shape or g.data.dtype!=np.float64 or not np.array_equal(g.data,o.data,equal_nan=True) or g.data.tobytes()!=o.data.astype(np.float64).tobytes():
                    bad+=1; print("data roundtrip",k)
                if g.actions.shape!=o.actions.shape or not np.array_equal(g.actions,o.actions,equal_nan=True): bad+=1; print("actions roundtrip")
print("saves",saves,"bad",bad)
# C20 reproduction: crash at first write
with tempfile.TemporaryDirectory() as d:
    p=Path(d)/"data.json"; save_json(p,"a",rand_out()); old=p.read_bytes()
    real_dump=json.dump
    import incomplete_cooperative.run.save as S
    def boom(*a,**k): raise KeyboardInterrupt
    S.json.dump=boom
    try: save_json(p,"b",rand_out())
    except KeyboardInterrupt: pass
    S.json.dump=real_dump
    now=p.read_bytes()
    print("C20: after crash file is old:",now==old,"len",len(now))
