-- core only: file-system crash model of DESIGN 3.7
inductive FsOp where
  | openTrunc (p : String)            -- open(p, "w"): create or truncate
  | write (p : String) (chunk : String)
  | close (p : String)
  | fsync (p : String)
  | rename (src dst : String)
deriving DecidableEq, Repr

abbrev Fs := String → Option String

def FsOp.apply (fs : Fs) : FsOp → Fs
  | .openTrunc p => fun q => if q = p then some "" else fs q
  | .write p c => fun q => if q = p then some ((fs p).getD "" ++ c) else fs q
  | .close _ => fs
  | .fsync _ => fs
  | .rename s d => fun q => if q = d then fs s else if q = s then none else fs q

def run (fs : Fs) (ops : List FsOp) : Fs := ops.foldl FsOp.apply fs

/-- an operation that can change the content seen at path `t` -/
def FsOp.touches (t : String) : FsOp → Bool
  | .openTrunc p => p == t
  | .write p _ => p == t
  | .close _ => false
  | .fsync _ => false
  | .rename s d => s == t || d == t

theorem apply_untouched (fs : Fs) (op : FsOp) (t : String) (h : op.touches t = false) :
    (op.apply fs) t = fs t := by
  cases op with
  | openTrunc p => simp only [FsOp.touches, beq_eq_false_iff_ne, ne_eq] at h; simp [FsOp.apply, Ne.symm h]
  | write p c => simp only [FsOp.touches, beq_eq_false_iff_ne, ne_eq] at h; simp [FsOp.apply, Ne.symm h]
  | close p => rfl
  | fsync p => rfl
  | rename s d =>
    simp only [FsOp.touches, Bool.or_eq_false_iff, beq_eq_false_iff_ne, ne_eq] at h
    simp [FsOp.apply, Ne.symm h.1, Ne.symm h.2]

theorem run_untouched (fs : Fs) (ops : List FsOp) (t : String) (h : ∀ op ∈ ops, op.touches t = false) :
    (run fs ops) t = fs t := by
  induction ops generalizing fs with
  | nil => rfl
  | cons op ops ih =>
    simp only [run, List.foldl] at ih ⊢
    rw [ih (op.apply fs) (fun o ho => h o (by simp [ho]))]
    exact apply_untouched fs op t (h op (by simp))

/-- the discipline: the target is touched by exactly one operation, a rename onto it -/
def Atomic (t : String) (ops : List FsOp) : Prop :=
  ∃ pre src post, ops = pre ++ FsOp.rename src t :: post ∧ src ≠ t ∧
    (∀ op ∈ pre, op.touches t = false) ∧ (∀ op ∈ post, op.touches t = false)

/-- every crash point leaves the old or the complete new content at the target -/
theorem atomic_all_crash_points (fs : Fs) (t : String) (ops : List FsOp) (h : Atomic t ops) (k : Nat) :
    (run fs (ops.take k)) t = fs t ∨ (run fs (ops.take k)) t = (run fs ops) t := by
  obtain ⟨pre, src, post, rfl, hne, hpre, hpost⟩ := h
  by_cases hk : k ≤ pre.length
  · left
    rw [List.take_append_of_le_length hk]
    exact run_untouched fs _ t (fun op ho => hpre op (List.mem_of_mem_take ho))
  · right
    have hk' : pre.length < k := by omega
    -- both sides: run pre, then the rename, then operations that do not touch t
    have key : ∀ (tail : List FsOp), (∀ op ∈ tail, op.touches t = false) →
        (run fs (pre ++ FsOp.rename src t :: tail)) t = (run fs pre) src := by
      intro tail htail
      have : run fs (pre ++ FsOp.rename src t :: tail) = run ((FsOp.rename src t).apply (run fs pre)) tail := by
        simp [run, List.foldl_append]
      rw [this, run_untouched _ tail t htail]
      simp [FsOp.apply]
    have htake : (pre ++ FsOp.rename src t :: post).take k = pre ++ FsOp.rename src t :: post.take (k - pre.length - 1) := by
      rw [List.take_append]
      have h1 : List.take k pre = pre := List.take_of_length_le (by omega)
      obtain ⟨m, hm⟩ : ∃ m, k - pre.length = m + 1 := ⟨k - pre.length - 1, by omega⟩
      rw [h1, hm, List.take_succ_cons]; simp
    rw [htake, key _ (fun op ho => hpost op (List.mem_of_mem_take ho)), key _ hpost]

/-- the current code: open-truncate the target itself — crash right after the open loses the old content -/
theorem truncate_not_atomic :
    ∃ (fs : Fs) (t : String) (ops : List FsOp) (k : Nat),
      (run fs (ops.take k)) t ≠ fs t ∧ (run fs (ops.take k)) t ≠ (run fs ops) t :=
  ⟨fun q => if q = "data.json" then some "{old}" else none, "data.json",
   [.openTrunc "data.json", .write "data.json" "{old,", .write "data.json" "new}", .close "data.json"], 1,
   by simp [run, FsOp.apply], by simp [run, FsOp.apply]⟩
#print axioms atomic_all_crash_points
#print axioms truncate_not_atomic
