-- core only: the schedule model of DESIGN 3.6 and the two theorems C11/C12 need

/-- run one chunk: thread the (copied) state through the chunk's tasks -/
def runChunk {σ τ ρ} (step : σ → τ → σ × ρ) (s : σ) : List τ → List ρ
  | [] => []
  | t :: ts => let (s', r) := step s t; r :: runChunk step s' ts

/-- Pool.starmap: every chunk starts from the parent's snapshot; results in task order -/
def runPool {σ τ ρ} (step : σ → τ → σ × ρ) (snapshot : σ) (chunks : List (List τ)) : List ρ :=
  chunks.flatMap (runChunk step snapshot)

/-- if a task's result does not depend on the state it receives, every chunking gives the sequential map -/
theorem runChunk_of_state_free {σ τ ρ} (step : σ → τ → σ × ρ) (g : τ → ρ)
    (h : ∀ s t, (step s t).2 = g t) : ∀ (s : σ) (ts : List τ), runChunk step s ts = ts.map g := by
  intro s ts
  induction ts generalizing s with
  | nil => rfl
  | cons t ts ih => simp [runChunk, h, ih]

theorem runPool_of_state_free {σ τ ρ} (step : σ → τ → σ × ρ) (g : τ → ρ)
    (h : ∀ s t, (step s t).2 = g t) (snapshot : σ) (chunks : List (List τ)) :
    runPool step snapshot chunks = chunks.flatten.map g := by
  induction chunks with
  | nil => rfl
  | cons c cs ih =>
    simp only [runPool, List.flatMap_cons, List.flatten_cons, List.map_append] at ih ⊢
    rw [runChunk_of_state_free step g h, ih]

/-- the current `evaluate`: a task's result is the next draw of a shared counter-RNG.
    Sequential = one chunk holding everything; 2 chunks replay. Concrete witness of schedule dependence. -/
def drawStep (s : Nat) (_t : Unit) : Nat × Nat := (s + 1, s)
example : runPool drawStep 0 [[(), (), (), ()]] = [0, 1, 2, 3] := by decide
example : runPool drawStep 0 [[(), ()], [(), ()]] = [0, 1, 0, 1] := by decide
theorem shared_rng_schedule_dependent :
    ∃ c1 c2 : List (List Unit), c1.flatten = c2.flatten ∧ runPool drawStep 0 c1 ≠ runPool drawStep 0 c2 :=
  ⟨[[(), (), (), ()]], [[(), ()], [(), ()]], by decide, by decide⟩
#print axioms runPool_of_state_free
#print axioms shared_rng_schedule_dependent
