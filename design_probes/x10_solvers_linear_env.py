import numpy as np, random, itertools, time, warnings
warnings.filterwarnings("ignore")
from functools import partial
from incomplete_cooperative.bounds import BOUNDS
from incomplete_cooperative.game import IncompleteCooperativeGame
from incomplete_cooperative.coalitions import Coalition, minimal_game_coalitions
from incomplete_cooperative.icg_gym import ICG_Gym
from incomplete_cooperative.icg_gym_linear import ICG_Gym_Linear
from incomplete_cooperative.generators import GENERATORS
from incomplete_cooperative.exploitability import compute_exploitability
from incomplete_cooperative.norms import l1_norm
t0=time.time()
from incomplete_cooperative.solvers import SOLVERS
from incomplete_cooperative.run.model import ModelInstance
print("import solvers", round(time.time()-t0,1))
rnd=random.Random(9); popc=lambda x: bin(x).count("1")
bad=0; states=0
def snapshot(env):
    ig=env.incomplete_game
    return (ig._values.copy(), env.steps_taken, env.full_game.get_values().copy(), env.normalized_game.get_values().copy())
def same(a,b): return all(np.array_equal(x,y) for x,y in zip(a,b))
inst=ModelInstance(seed=5)
for gen_name,cls in [("noisy_factory","superadditive"),("graph","superadditive_cached"),("xos","sam_apx_1"),("covg_fn_generator","superadditive")]:
  for n in (3,4):
    rng=np.random.default_rng(rnd.randrange(10**6)); comp=BOUNDS[cls]
    env=ICG_Gym(IncompleteCooperativeGame(n,comp), partial(GENERATORS[gen_name],n,rng), minimal_game_coalitions(n), compute_exploitability, None)
    nexp=len(env.explorable_coalitions)
    for rep in range(4):
        env.reset(); order=rnd.sample(range(nexp),nexp)
        for a in order:
            valid=[i for i in range(nexp) if env.action_masks()[i]]
            # immediate rewards by independent step/unstep
            rewards={}
            for i in valid:
                _,r,_,_,_=env.step(i); env.unstep(i); rewards[i]=r
            snap=snapshot(env); states+=1
            for name in SOLVERS:
                s=SOLVERS[name](inst); act=s.next_step(env)
                if not same(snap,snapshot(env)): bad+=1; print("env changed by",name)
                if act not in valid: bad+=1; print("invalid action",name)
                if name=="greedy" and act!=min(i for i in valid if rewards[i]==max(rewards.values())): bad+=1; print("greedy rule")
                if name=="greedy_worst" and act!=min(i for i in valid if rewards[i]==min(rewards.values())): bad+=1; print("worst rule")
                if name=="largest":
                    ms=max(popc(env.explorable_coalitions[i].id) for i in valid)
                    if act!=min(i for i in valid if popc(env.explorable_coalitions[i].id)==ms): bad+=1; print("largest rule")
            env.step(a)
print("solver states",states,"bad",bad, round(time.time()-t0,1))
# C16
bad=0; steps=0
for gen_name in ("noisy_factory","graph","xos"):
  for n in (3,4,5,6):
    rng=np.random.default_rng(rnd.randrange(10**6)); np.random.seed(rnd.randrange(10**6))
    inner=ICG_Gym(IncompleteCooperativeGame(n,BOUNDS["superadditive_cached"]), partial(GENERATORS[gen_name],n,rng), minimal_game_coalitions(n), l1_norm, None)
    lin=ICG_Gym_Linear(inner)
    sizes=[popc(c.id) for c in inner.explorable_coalitions]
    def agg(x): 
        out=[0.0]*n
        for s,val in zip(sizes,x): out[s]+=val
        return out
    for rep in range(3):
        st,_=lin.reset()
        if list(st)!=agg(inner.state) or len(st)!=n: bad+=1; print("reset obs",list(st),agg(inner.state))
        while not lin.done:
            mask=list(lin.action_masks()); unknown=[c.id for c,m in zip(inner.explorable_coalitions,inner.action_masks()) if m]
            exp_mask=[any(popc(c)==k for c in unknown) for k in range(n)]
            if mask!=exp_mask or len(mask)!=n: bad+=1; print("mask",mask,exp_mask)
            k=rnd.choice([i for i in range(n) if mask[i]])
            known_before=set(np.flatnonzero(inner.incomplete_game.are_values_known()))
            st,rw,dn,_,info=lin.step(k); steps+=1
            known_after=set(np.flatnonzero(inner.incomplete_game.are_values_known()))
            new=known_after-known_before
            if len(new)!=1 or popc(next(iter(new)))!=k or info["chosen_coalition"]!=next(iter(new)) or known_before-known_after: bad+=1; print("step reveal wrong")
            if rw!=inner.reward or dn!=inner.done or list(st)!=agg(inner.state) or len(st)!=n: bad+=1; print("step result wrong")
print("linear steps",steps,"bad",bad, round(time.time()-t0,1))
