import numpy as np, warnings
warnings.filterwarnings("ignore")
from incomplete_cooperative.generators import GENERATORS
class Rec(np.random.Generator):
    def __init__(self, seed):
        super().__init__(np.random.PCG64(seed)); self.log=[]
    def _rec(self,name,out): self.log.append((name, np.array(out).tolist())); return out
    def integers(self,*a,**k): return self._rec("integers", super().integers(*a,**k))
    def uniform(self,*a,**k): return self._rec("uniform", super().uniform(*a,**k))
    def random(self,*a,**k): return self._rec("random", super().random(*a,**k))
    def choice(self,*a,**k): return self._rec("choice", super().choice(*a,**k))
    def permutation(self,*a,**k): return self._rec("permutation", super().permutation(*a,**k))
for name in ["factory","noisy_factory_square","factory_cheerleader_next","graph_cycle","graph_random","graph_internet","graph_geometric","xos","xos_norm_additive","xs","xs3","oxs","k_budget_generator","covg_fn_generator","graph_beta_2_3","predictible_factory","xos_one"]:
    r=Rec(5); ref=np.random.default_rng(5)
    try:
        g=GENERATORS[name](4,r); g2=GENERATORS[name](4,ref)
        same=np.array_equal(g.get_values(),g2.get_values())
        print(f"{name:28s} same_as_plain_rng={same} recorded={[(k,(len(v) if isinstance(v,list) else v)) for k,v in r.log][:6]}")
    except Exception as e:
        print(name,"EXC",type(e).__name__,e)
