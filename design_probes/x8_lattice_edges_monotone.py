import numpy as np, random, time
from functools import partial
from incomplete_cooperative.bounds import *
from incomplete_cooperative.game import IncompleteCooperativeGame
from incomplete_cooperative.coalitions import Coalition
from incomplete_cooperative.exploitability import compute_exploitability
from incomplete_cooperative.norms import l1_norm,l2_norm,linf_norm
rnd=random.Random(2)
popc=lambda x: bin(x).count("1")
def rand_sa(n,neg):
    N=2**n; v=[0]*N
    for c in sorted(range(1,N),key=popc):
        if popc(c)==1: v[c]=rnd.randint(-5,5) if neg else rnd.randint(0,5)
        else: v[c]=max(v[x]+v[c^x] for x in range(1,c) if x&c==x)+rnd.choice([0,0,1,2,5])
    return v
def rand_sam(n):
    sets=[frozenset(rnd.sample(range(2*n), rnd.randint(1,4))) for _ in range(n)]
    w={e:rnd.randint(1,4) for e in range(2*n)}
    return [-sum(w[e] for e in set().union(*[sets[i] for i in range(n) if c>>i&1])) for c in range(2**n)]
GAPS=[compute_exploitability,l1_norm,l2_norm,linf_norm]
def run(n,comp,v,K):
    g=IncompleteCooperativeGame(n,comp)
    for c in range(2**n):
        g.set_lower_bound(rnd.randint(-99,99),Coalition(c)); g.set_upper_bound(rnd.randint(-99,99),Coalition(c))
    ks=sorted(K); rnd.shuffle(ks)
    for k in ks: g.set_value(v[k],Coalition(k))
    g.compute_bounds()
    return g.get_lower_bounds().copy(), g.get_upper_bounds().copy(), [float(f(g)) for f in GAPS]
t0=time.time(); bad=0; edges=0
n=4; N=16; minimal=[0,N-1]+[1<<i for i in range(n)]; others=[c for c in range(N) if c not in minimal]
for comp_name,comp,gen in [("sa",compute_bounds_superadditive,lambda:rand_sa(n,True)),("sac",compute_bounds_superadditive_cached,lambda:rand_sa(n,False)),("sam2",partial(compute_bounds_superadditive_monotone_approx_cached,repetitions=2),lambda:rand_sam(n))]:
    v=gen()
    res={}
    for mask in range(2**len(others)):
        K=frozenset(minimal+[others[i] for i in range(len(others)) if mask>>i&1])
        res[mask]=run(n,comp,v,K)
    for mask in range(2**len(others)):
        lo,up,gaps=res[mask]
        if any(x < -1e-9 for x in gaps): bad+=1; print("neg gap",comp_name)
        if mask==2**len(others)-1 and any(abs(x)>1e-9 for x in gaps): bad+=1; print("nonzero at full")
        for i in range(len(others)):
            if not mask>>i&1:
                lo2,up2,gaps2=res[mask|1<<i]; edges+=1
                if np.any(lo2<lo) or np.any(up2>up): bad+=1; print("C07 widen",comp_name,mask,i)
                if any(b>a+1e-9 for a,b in zip(gaps,gaps2)): bad+=1; print("C07 gap up",comp_name,mask,i,gaps,gaps2)
print("edges",edges,"bad",bad,"time",round(time.time()-t0,1))
