import numpy as np, random, time, warnings
warnings.filterwarnings("ignore")
from incomplete_cooperative.run.model import ModelInstance
from incomplete_cooperative.run.greedy import get_greedy_rewards
from incomplete_cooperative.run.best_states import get_best_exploitability
from incomplete_cooperative.evaluation import evaluate
from incomplete_cooperative.solvers import SOLVERS
from incomplete_cooperative.game import IncompleteCooperativeGame
from incomplete_cooperative.coalitions import Coalition
from incomplete_cooperative.bounds import BOUNDS
def main():
    t0=time.time(); bad=0
    for gen,cls,gap in (("noisy_factory","superadditive","exploitability"),("graph_cycle","superadditive_cached","l1_norm"),("xos","sam_apx_1","linf_norm"),("covg_fn_generator","superadditive","l2_norm")):
        for n,steps in ((3,3),(4,3)):
            for reps in (1,2,4):
                seed=7
                # same sampled games for both searches: build two envs from identically seeded instances
                i1=ModelInstance(number_of_players=n,game_class=cls,game_generator=gen,gap_function=gap,seed=seed,run_steps_limit=steps)
                i2=ModelInstance(number_of_players=n,game_class=cls,game_generator=gen,gap_function=gap,seed=seed,run_steps_limit=steps)
                e1,a1=get_greedy_rewards(i1.get_env(),steps,reps,i1.gap_function_callable,2)
                e2,a2=get_best_exploitability(i2.get_env(),steps,reps,i2.gap_function_callable,2)
                if gen in("graph_cycle","covg_fn_generator","noisy_factory","xos"):
                    pass
                m1,m2=e1.mean(axis=1),e2.mean(axis=1)
                same_games = np.allclose(e1[0],e2[0])
                if len(set(a1))!=len(a1): bad+=1; print("greedy repeats")
                if np.any(np.diff(m1)>1e-9): bad+=1; print("greedy curve increases",gen,n,reps,m1)
                if np.any(np.diff(m2)>1e-9): bad+=1; print("best curve increases",gen,n,reps,m2)
                if same_games:
                    if np.any(m1<m2-1e-9): bad+=1; print("greedy below optimum",gen,n,reps,m1,m2)
                    if abs(m1[0]-m2[0])>1e-9 or abs(m1[1]-m2[1])>1e-9: bad+=1; print("not equal at 0/1",m1,m2)
                else: print("note: different sampled games for",gen,n,reps)
    # C12 trajectory truth, 1 process
    for solver in ("greedy","largest","greedy_worst"):
        inst=ModelInstance(number_of_players=4,game_generator="noisy_factory",seed=11,run_steps_limit=4)
        s=SOLVERS[solver](inst); games=[]
        def after(env): games.append(env.full_game.copy())
        e,a=evaluate(s.next_step,inst.get_env,5,4,inst.gap_function_callable,1,after)
        for j in range(5):
            g=IncompleteCooperativeGame(4,BOUNDS["superadditive"]); N=16
            known=[0,15,1,2,4,8]
            for t in range(5):
                ks=[Coalition(k) for k in known]; g.set_known_values(games[j].get_values(ks),ks); g.compute_bounds()
                if inst.gap_function_callable(g)!=e[t,j]: bad+=1; print("trajectory gap wrong",solver,j,t)
                if t<4: known.append(int(a[t,j]))
            if len(set(a[:,j]))!=4 or any(int(x) in (0,15,1,2,4,8) for x in a[:,j]): bad+=1; print("actions not distinct/explorable")
    print("bad",bad,round(time.time()-t0,1))
if __name__=="__main__": main()
