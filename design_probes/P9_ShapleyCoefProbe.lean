import Mathlib.Data.Nat.Choose.Basic
import Mathlib.Data.Nat.Factorial.Basic
import Mathlib.Algebra.Order.Field.Basic
import Mathlib.Data.Nat.Cast.Field
import Mathlib.Tactic.FieldSimp
import Mathlib.Tactic.Ring
import Mathlib.Tactic.Positivity
import Mathlib.Algebra.CharZero.Defs
open Nat

variable {K : Type} [Field K] [CharZero K]

/-- coefficient of `hi T` (|T| = t ≥ 1) in Σ_i φ_i(maxgain_i):  t · (t-1)! (n-t)! / n! = 1 / C(n,t) -/
theorem coef_upper (n t : ℕ) (ht : 1 ≤ t) (htn : t ≤ n) :
    (t : K) * ((t - 1)! * (n - (t - 1) - 1)! : ℕ) / (n ! : K) = 1 / (n.choose t : K) := by
  have h1 : t * (t - 1)! = t ! := by
    obtain ⟨s, rfl⟩ : ∃ s, t = s + 1 := ⟨t - 1, by omega⟩
    simp [Nat.factorial_succ]
  have h2 : n - (t - 1) - 1 = n - t := by omega
  have hc : n.choose t * t ! * (n - t)! = n ! := Nat.choose_mul_factorial_mul_factorial htn
  have hn : (n ! : K) ≠ 0 := by exact_mod_cast Nat.factorial_ne_zero n
  have hch : (n.choose t : K) ≠ 0 := by exact_mod_cast (Nat.choose_pos htn).ne'
  rw [h2, div_eq_div_iff hn hch]
  have : ((t : K) * ((t - 1)! * (n - t)! : ℕ)) * (n.choose t : K) = ((n.choose t * (t * (t - 1)!) * (n - t)! : ℕ) : K) := by
    push_cast; ring
  rw [this, h1, hc]; ring

/-- coefficient of `lo S` (|S| = s < n):  (n-s) · s! (n-s-1)! / n! = 1 / C(n,s) -/
theorem coef_lower (n s : ℕ) (hs : s < n) :
    ((n - s : ℕ) : K) * ((s ! * (n - s - 1)! : ℕ) : K) / (n ! : K) = 1 / (n.choose s : K) := by
  have h1 : (n - s) * (n - s - 1)! = (n - s)! := by
    obtain ⟨m, hm⟩ : ∃ m, n - s = m + 1 := ⟨n - s - 1, by omega⟩
    rw [hm]; simp [Nat.factorial_succ]
  have hc : n.choose s * s ! * (n - s)! = n ! := Nat.choose_mul_factorial_mul_factorial hs.le
  have hn : (n ! : K) ≠ 0 := by exact_mod_cast Nat.factorial_ne_zero n
  have hch : (n.choose s : K) ≠ 0 := by exact_mod_cast (Nat.choose_pos hs.le).ne'
  rw [div_eq_div_iff hn hch]
  have : ((n - s : ℕ) : K) * ((s ! * (n - s - 1)! : ℕ) : K) * (n.choose s : K)
       = ((n.choose s * s ! * ((n - s) * (n - s - 1)!) : ℕ) : K) := by push_cast; ring
  rw [this, h1, hc]; ring
#print axioms coef_upper
#print axioms coef_lower
