-- import-free model prototype
namespace ICG

def subsOf (c : Nat) : List Nat := (List.range (c+1)).filter (fun x => x &&& c == x)
def properSubs (c : Nat) : List Nat := (subsOf c).filter (fun x => x != 0 && x != c)

def listMax {α} [Max α] [Inhabited α] : List α → α
  | [] => default
  | a :: l => l.foldl max a

theorem properSubs_lt {c x : Nat} (hx : x ∈ properSubs c) : x < c ∧ c - x < c := by
  simp [properSubs, subsOf] at hx
  omega

variable {α : Type} [Add α] [Max α] [Inhabited α]

def loSpec (known : Nat → Bool) (v : Nat → α) (c : Nat) : α :=
  if known c then v c else
    listMax ((properSubs c).attach.map fun ⟨x, hx⟩ =>
      have := (properSubs_lt hx).1
      have := (properSubs_lt hx).2
      loSpec known v x + loSpec known v (c - x))
termination_by c

end ICG
