import Mathlib.Algebra.BigOperators.Group.Finset.Basic
import Mathlib.Algebra.BigOperators.Group.Finset.Sigma
import Mathlib.Data.Finset.Powerset
open Finset

/-- pairs (x, S') with x ∈ Q, S' ⊆ Q∖x  ↔  pairs (S, x) with S ⊆ Q, x ∈ S -/
theorem reindex_pairs {M} [AddCommMonoid M] (Q : Finset ℕ) (F : ℕ → Finset ℕ → M) :
    ∑ x ∈ Q, ∑ S' ∈ (Q.erase x).powerset, F x S'
  = ∑ S ∈ Q.powerset, ∑ x ∈ S, F x (S.erase x) := by
  rw [Finset.sum_sigma', Finset.sum_sigma']
  refine Finset.sum_bij' (fun p _ => ⟨insert p.1 p.2, p.1⟩) (fun q _ => ⟨q.2, q.1.erase q.2⟩) ?_ ?_ ?_ ?_ ?_
  · rintro ⟨x, S'⟩ h
    simp only [mem_sigma, mem_powerset] at h ⊢
    refine ⟨?_, mem_insert_self _ _⟩
    intro y hy
    rcases mem_insert.mp hy with rfl | hy
    · exact h.1
    · exact mem_of_mem_erase (h.2 hy)
  · rintro ⟨S, x⟩ h
    simp only [mem_sigma, mem_powerset] at h ⊢
    exact ⟨h.1 h.2, fun y hy => mem_erase.mpr ⟨(mem_erase.mp hy).1, h.1 (mem_erase.mp hy).2⟩⟩
  · rintro ⟨x, S'⟩ h
    simp only [mem_sigma, mem_powerset] at h
    have hx : x ∉ S' := fun hx => (mem_erase.mp (h.2 hx)).1 rfl
    simp [erase_insert hx]
  · rintro ⟨S, x⟩ h
    simp only [mem_sigma, mem_powerset] at h
    simp [insert_erase h.2]
  · rintro ⟨x, S'⟩ h
    simp only [mem_sigma, mem_powerset] at h
    have hx : x ∉ S' := fun hx => (mem_erase.mp (h.2 hx)).1 rfl
    simp [erase_insert hx]
#print axioms reindex_pairs
