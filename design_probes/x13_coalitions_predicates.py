import numpy as np, random, itertools, time
from incomplete_cooperative.coalitions import *
from incomplete_cooperative import coalition_ids as cid
from incomplete_cooperative.game import IncompleteCooperativeGame
from incomplete_cooperative.game_properties import is_superadditive, is_monotone_decreasing, is_sam
from incomplete_cooperative.supermodularity_check import check_supermodularity
t0=time.time(); bad=0; cnt=0
S=lambda c:{i for i in range(12) if c>>i&1}
for n in range(1,9):
    N=2**n
    if [c.id for c in all_coalitions(n)]!=list(range(N)) or list(cid.get_all_coalitions(n))!=list(range(N)): bad+=1
    if grand_coalition(n).id!=N-1: bad+=1
    mg=[c.id for c in minimal_game_coalitions(n)]
    if mg!=[0,N-1]+[1<<i for i in range(n)]: bad+=1
    for c in range(N):
        C=Coalition(c); cnt+=1
        if set(C.players)!=S(c) or list(C.players)!=sorted(S(c)) or len(C)!=len(S(c)): bad+=1; print("players/len")
        if Coalition.from_players(list(C.players)+list(C.players)).id!=c: bad+=1; print("from_players")
        if S(C.inverted(n).id)!=set(range(n))-S(c): bad+=1; print("inverted")
        if list(cid.players(np.int32(c),n))!=sorted(S(c)) or cid.get_size(np.int32(c),n)!=len(S(c)): bad+=1; print("ids players/size")
        subs_obj=[x.id for x in get_sub_coalitions(C)]; subs_id=list(cid.sub_coalitions(np.int32(c),n))
        exp_subs=sorted(x for x in range(N) if x&c==x)
        if sorted(subs_obj)!=exp_subs or len(set(subs_obj))!=len(subs_obj) or [int(x) for x in subs_id]!=exp_subs: bad+=1; print("subs",c)
        sup_obj=[x.id for x in get_super_coalitions(C,n)]; sup_id=[int(x) for x in cid.super_coalitions(np.int32(c),n)]
        exp_sup=sorted(x for x in range(N) if x&c==c)
        if sorted(sup_obj)!=exp_sup or len(set(sup_obj))!=len(sup_obj) or sorted(sup_id)!=exp_sup or len(set(sup_id))!=len(sup_id): bad+=1; print("supers",c)
        for i in range(n):
            if (i in C)!=(i in S(c)) or (C+i).id!=c|1<<i or (C-i).id!=c&~(1<<i) or (C|i).id!=c|1<<i or (C&i).id!=c&(1<<i): bad+=1; print("player ops")
    if n<=6:
        for a in range(N):
            for b in range(N):
                A,B=Coalition(a),Coalition(b)
                if S((A|B).id)!=S(a)|S(b) or S((A&B).id)!=S(a)&S(b) or S((A-B).id)!=S(a)-S(b) or (B in A)!=(S(b)<=S(a)) or disjoint_coalitions(A,B)!=(not S(a)&S(b)) or (A==B)!=(a==b): bad+=1; print("pair ops")
        ex=[x.id for x in exclude_coalition(Coalition(5 % N), all_coalitions(n))]
        if ex!=[x for x in range(N) if not x&(5%N)]: bad+=1
print("coalitions",cnt,"bad",bad,round(time.time()-t0,1))
# predicates on all integer games on a small lattice n=3: non-singleton values in -1..2
bad=0;cnt=0
n=3;N=8
def sa(v): return all(v[a]+v[b]<=v[a|b] for a in range(N) for b in range(N) if a&b==0)
def md(v): return all(v[a]>=v[b] for a in range(N) for b in range(N) if a&b==a)
def smod(v): return all(v[a|b]+v[a&b]>=v[a]+v[b] for a in range(N) for b in range(N))
for vals in itertools.product(range(-1,2),repeat=7):
    v=[0]+list(vals); g=IncompleteCooperativeGame(n); g.set_values(np.array(v,float)); cnt+=1
    if is_superadditive(g)!=sa(v) or is_monotone_decreasing(g)!=md(v) or is_sam(g)!=(sa(v) and md(v)) or (check_supermodularity(g) is None)!=smod(v): bad+=1; print("pred",v); break
print("games",cnt,"bad",bad,round(time.time()-t0,1))
