import numpy as np, itertools, warnings, tempfile, random
from pathlib import Path
warnings.filterwarnings("ignore")
from incomplete_cooperative.regret import GameRegretMinimizer, get_coalition_player_id_map
from incomplete_cooperative.coalitions import Coalition
popc=lambda x: bin(x).count("1")
def viable(n): return [c for c in range(2**n) if popc(c) not in (0,1,n)]
def mk(n,limit,plus):
    # apply the two candidate repairs inline (table size, limit clip) so that the remaining invariants can be pre-flighted
    class RM(GameRegretMinimizer):
        def __init__(s,n,l,plus=False):
            m=2**n-n-2; l=min(l,m)
            import incomplete_cooperative.regret as R
            orig=np.zeros
            def z(shape,dtype=float):
                if shape==getattr(s,'viable_metacoalitions',None) and dtype is int: return orig(2**m,dtype=dtype)
                return orig(shape,dtype=dtype)
            R.np.zeros=z
            try: super().__init__(n,l,plus)
            finally: R.np.zeros=orig
    return RM(n,limit,plus)
rnd=random.Random(1); bad=0; nodes=0
for n,limits in ((3,range(1,5)),(4,(1,2,3,5,10,12))):
    V=viable(n); m=len(V); pid={c:i for i,c in enumerate(V)}
    for limit in limits:
      for plus in (False,True):
        rm=mk(n,limit,plus); k=min(limit,m)
        terms=[list(map(Coalition,s)) for s in itertools.combinations(V,k)]
        rng=np.random.default_rng(rnd.randrange(10**6))
        for it in range(4):
            before=rm.cumulative_regret.copy()
            strat_before=[rm.regret_matching_strategy(int(rm.meta_rank_to_id[r])).astype(float) for r in range(rm.number_of_regret_minimizers)]
            rm.regret_min_iteration(rng.random(len(terms)).astype(np.float32), terms)
            added=rm.cumulative_regret-before
            for r in range(rm.number_of_regret_minimizers):
                mid=int(rm.meta_rank_to_id[r]); used=[i for i in range(m) if mid>>i&1]; nodes+=1
                s=rm.regret_matching_strategy(mid).astype(float)
                if not (np.all(np.isfinite(s)) and abs(s.sum()-1)<1e-5 and np.all(s>=0) and np.all(s[used]==0)): bad+=1; print("strategy invalid",n,limit,mid,s)
                if not plus and abs(float(np.dot(strat_before[r],added[r])))>1e-5: bad+=1; print("not orthogonal",n,limit,mid,np.dot(strat_before[r],added[r]))
                if plus and np.any(rm.cumulative_regret[r]<0): bad+=1; print("plus negative")
                if not plus and np.any(rm.cumulative_regret[r][used]>1e-7): bad+=1; print("used regret positive")
                coals=[Coalition(V[i]) for i in used]
                avg=rm.get_average_strategy(coals)
                if not (np.all(np.isfinite(avg)) and abs(avg.sum()-1)<1e-5 and np.all(avg>=0) and all(avg[c]==0 for c in range(2**n) if c not in V or pid[c] in used)): bad+=1; print("avg invalid",n,limit,mid,avg)
        # ranking bijection sorted by size
        ids=[int(x) for x in rm.meta_rank_to_id]
        if len(set(ids))!=len(ids) or [popc(x) for x in ids]!=sorted(popc(x) for x in ids) or set(ids)!={x for x in range(2**m) if popc(x)<=k}: bad+=1; print("ranking")
        if any(rm.meta_id_to_rank[x]!=r for r,x in enumerate(ids)): bad+=1; print("rank inverse")
        # save / load continues identically
        with tempfile.TemporaryDirectory() as d:
            GameRegretMinimizer.save(rm,Path(d))
            import json; p=json.load(open(Path(d)/"params.json"))
            rm2=mk(p["number_of_players"],p["limit_of_revealed"],p["plus"]); rm2.iteration=p["iteration"]
            rm2.cumulative_regret=np.load(Path(d)/"regret.npy"); rm2.cumulative_strategy=np.load(Path(d)/"strategy.npy")
            tl=rng.random(len(terms)).astype(np.float32)
            rm.regret_min_iteration(tl,terms); rm2.regret_min_iteration(tl,terms)
            if not (np.array_equal(rm.cumulative_regret,rm2.cumulative_regret) and np.array_equal(rm.cumulative_strategy,rm2.cumulative_strategy) and rm.iteration==rm2.iteration): bad+=1; print("save/load diverges")
print("nodes",nodes,"bad",bad)
