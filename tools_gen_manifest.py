#!/usr/bin/env python3
"""Regenerate MANIFEST.json from harness/props.py + harness/manifest_text.py (run after changing either)."""
import json, sys
from pathlib import Path
sys.path.insert(0, str(Path(__file__).resolve().parent / "harness"))
from props import PROPS
from manifest_text import LEVEL_TEXT, LEVEL_NOTE, TECHNIQUE, NOT_APPLICABLE, DESIGN_REF, HOOK_COMMITS

ALL = [f"C{i:02d}" for i in range(1, 21)]
checks = []
for pid in ALL:
    if pid not in PROPS or pid not in LEVEL_TEXT:
        continue
    checks.append({
        "property_id": pid,
        "quick_cmd": f"/venv/bin/python harness/check.py {pid} --tier quick",
        "thorough_cmd": f"/venv/bin/python harness/check.py {pid} --tier thorough",
        "evidence_file": f"/verif/evidence/{pid}.json",
        "replay_cmd_template": f"/venv/bin/python harness/check.py {pid} --replay {{path}}",
        "engine": "lean4-model+correspondence",
        "level_claimed": {"category": "proof", "text": LEVEL_TEXT[pid], "design_ref": DESIGN_REF.get(pid, f"DESIGN.md section 5, {pid}")},
        "level_note": LEVEL_NOTE.get(pid, LEVEL_NOTE["default"]),
        "technique": TECHNIQUE.get(pid, TECHNIQUE["default"]),
    })
claimed = {c["property_id"] for c in checks}
na = [{"property_id": p, "reason": NOT_APPLICABLE.get(p, "check not built yet in this revision of /verif (planned in DESIGN.md section 5); not claimed")}
      for p in ALL if p not in claimed]
manifest = {
    "version": 1,
    "setup_cmd": "cd lean && lake build ICG driver",
    "hooks": {
        "guard": "INCOMPLETE_COOPERATIVE_VERIF",
        "enable": "no source hooks are needed: the harness imports /repo's modules in-process (PYTHONPATH=$VERIF_REPO, default /repo) and instruments from outside (recording RNG subclass, monkey-patched open/os.replace in the harness process); the guard variable is set by the harness but nothing in /repo reads it",
        "baseline_off_cmd": "cd /repo && /venv/bin/python -m pytest -ra -q -p no:cacheprovider --timeout=900 --continue-on-collection-errors",
        "source_commits": HOOK_COMMITS,
        "add_only": True,
    },
    "engines": [{"name": "lean4-model+correspondence", "path": "lean/ + harness/",
                 "serves_properties": sorted(claimed),
                 "kind_free_text": "Lean 4 theorems about a hand-written executable model (lean/ICG), kernel-checked and axiom-audited on every run; the model is tied to /repo's working tree by a differential correspondence check (harness/) that drives the real Python code and the compiled model driver with the same inputs"}],
    "checks": checks,
    "not_applicable": na,
    "notes": "See DESIGN.md. Known findings: KNOWN_FINDINGS.txt. Seeded changes used to test the checks: seeded/.",
}
Path(__file__).resolve().parent.joinpath("MANIFEST.json").write_text(json.dumps(manifest, indent=1) + "\n")
print("claimed:", sorted(claimed))
